//! A minimal LSP client over stdio for driving the real `lsp4spl` binary:
//! independent frame writer/reader (written from spec/LspFraming.tla, not
//! from lsp4spl/src/io.rs), explicit control over how the byte stream is
//! chunked into writes, bounded waiting.

use serde_json::Value;
use std::io::{Read, Write};
use std::process::{Child, Command, Stdio};
use std::sync::mpsc;
use std::time::{Duration, Instant};

pub fn frame(msg: &Value) -> Vec<u8> {
    let body = serde_json::to_vec(msg).unwrap();
    let mut v = format!("Content-Length: {}\r\n\r\n", body.len()).into_bytes();
    v.extend_from_slice(&body);
    v
}

/// Incremental frame parser for the server's output.  Fails when a header is
/// malformed or when the body of the announced byte length is not exactly one
/// JSON document (which is what a wrong Content-Length leads to).
pub struct FrameReader {
    buf: Vec<u8>,
    pub frames: Vec<Value>,
    pub error: Option<String>,
}

impl Default for FrameReader {
    fn default() -> Self {
        Self::new()
    }
}

impl FrameReader {
    pub fn new() -> Self {
        Self {
            buf: Vec::new(),
            frames: Vec::new(),
            error: None,
        }
    }
    pub fn feed(&mut self, data: &[u8]) {
        if self.error.is_some() {
            return;
        }
        self.buf.extend_from_slice(data);
        loop {
            let Some(hend) = find(&self.buf, b"\r\n\r\n") else {
                if self.buf.len() > 4096 {
                    self.error = Some("no header terminator in 4096 bytes".into());
                }
                return;
            };
            let header = String::from_utf8_lossy(&self.buf[..hend]).to_string();
            let mut clen: Option<usize> = None;
            for line in header.split("\r\n") {
                let Some((name, value)) = line.split_once(':') else {
                    self.error = Some(format!("malformed header line {line:?}"));
                    return;
                };
                if name.eq_ignore_ascii_case("Content-Length") {
                    match value.trim().parse::<usize>() {
                        Ok(n) => clen = Some(n),
                        Err(_) => {
                            self.error = Some(format!("bad Content-Length {value:?}"));
                            return;
                        }
                    }
                }
            }
            let Some(n) = clen else {
                self.error = Some(format!("header without Content-Length: {header:?}"));
                return;
            };
            let start = hend + 4;
            if self.buf.len() < start + n {
                return;
            }
            match serde_json::from_slice::<Value>(&self.buf[start..start + n]) {
                Ok(v) => self.frames.push(v),
                Err(e) => {
                    self.error = Some(format!(
                        "body of announced length {n} is not one JSON document ({e}): {:?}",
                        String::from_utf8_lossy(&self.buf[start..(start + n).min(start + 200)])
                    ));
                    return;
                }
            }
            self.buf.drain(..start + n);
        }
    }
    /// bytes left over that do not form a complete frame
    pub fn leftover(&self) -> usize {
        self.buf.len()
    }
}

fn find(hay: &[u8], needle: &[u8]) -> Option<usize> {
    hay.windows(needle.len()).position(|w| w == needle)
}

pub struct RunResult {
    pub frames: Vec<Value>,
    pub frame_error: Option<String>,
    pub leftover: usize,
    pub exit: Option<i32>,     // None: killed by signal
    pub timed_out: bool,       // did not exit within the bound after end of input
    pub exit_after_ms: u128,   // time from closing stdin to exit
    pub write_failed_at: Option<usize>,
}

/// Run one session: spawn the server, perform the writes (each element is one
/// write(2) + flush, optionally separated by a delay), close stdin, wait for
/// the process to exit (bounded), collect every frame it wrote.
pub fn run_session(exe: &str, writes: &[Vec<u8>], delay: Option<Duration>, bound: Duration, trace: Option<&str>) -> RunResult {
    let mut cmd = Command::new(exe);
    cmd.stdin(Stdio::piped()).stdout(Stdio::piped()).stderr(Stdio::null());
    cmd.env("RUST_BACKTRACE", "0").env("NO_COLOR", "1");
    if let Some(t) = trace {
        cmd.env("LSP4SPL_VERIF_TRACE", t);
    } else {
        cmd.env_remove("LSP4SPL_VERIF_TRACE");
    }
    let mut child: Child = cmd.spawn().unwrap_or_else(|e| {
        eprintln!("cannot spawn {exe}: {e}");
        std::process::exit(2)
    });
    let mut stdin = child.stdin.take().unwrap();
    let mut stdout = child.stdout.take().unwrap();
    let (tx, rx) = mpsc::channel::<FrameReader>();
    let reader = std::thread::spawn(move || {
        let mut fr = FrameReader::new();
        let mut buf = [0u8; 65536];
        loop {
            match stdout.read(&mut buf) {
                Ok(0) | Err(_) => break,
                Ok(n) => fr.feed(&buf[..n]),
            }
        }
        let _ = tx.send(fr);
    });
    let mut write_failed_at = None;
    for (i, w) in writes.iter().enumerate() {
        if stdin.write_all(w).and_then(|_| stdin.flush()).is_err() {
            write_failed_at = Some(i);
            break;
        }
        if let Some(d) = delay {
            std::thread::sleep(d);
        }
    }
    drop(stdin); // end of input
    let t0 = Instant::now();
    let mut timed_out = false;
    let status = loop {
        match child.try_wait() {
            Ok(Some(st)) => break Some(st),
            Ok(None) => {
                if t0.elapsed() > bound {
                    timed_out = true;
                    let _ = child.kill();
                    break child.wait().ok();
                }
                std::thread::sleep(Duration::from_millis(2));
            }
            Err(_) => break None,
        }
    };
    let exit_after_ms = t0.elapsed().as_millis();
    let fr = rx.recv_timeout(Duration::from_secs(10)).unwrap_or_default();
    let _ = reader.join();
    RunResult {
        frames: fr.frames.clone(),
        frame_error: fr.error.clone(),
        leftover: fr.leftover(),
        exit: status.and_then(|s| s.code()),
        timed_out,
        exit_after_ms,
        write_failed_at,
    }
}

/// Interactive session: requests are sent one at a time and answered before
/// the next is sent (used where answers decide the next message).
pub struct Live {
    child: Child,
    stdin: Option<std::process::ChildStdin>,
    rx: mpsc::Receiver<Option<Value>>,
    pub frame_error: std::sync::Arc<std::sync::Mutex<Option<String>>>,
    pub notes: Vec<Value>,
}

impl Live {
    pub fn spawn(exe: &str, trace: Option<&str>) -> Self {
        let mut cmd = Command::new(exe);
        cmd.stdin(Stdio::piped()).stdout(Stdio::piped()).stderr(Stdio::null());
        cmd.env("RUST_BACKTRACE", "0").env("NO_COLOR", "1");
        if let Some(t) = trace {
            cmd.env("LSP4SPL_VERIF_TRACE", t);
        } else {
            cmd.env_remove("LSP4SPL_VERIF_TRACE");
        }
        let mut child = cmd.spawn().unwrap_or_else(|e| {
            eprintln!("cannot spawn {exe}: {e}");
            std::process::exit(2)
        });
        let stdin = child.stdin.take();
        let mut stdout = child.stdout.take().unwrap();
        let (tx, rx) = mpsc::channel::<Option<Value>>();
        let ferr = std::sync::Arc::new(std::sync::Mutex::new(None));
        let ferr2 = ferr.clone();
        std::thread::spawn(move || {
            let mut fr = FrameReader::new();
            let mut buf = [0u8; 65536];
            let mut sent = 0usize;
            loop {
                match stdout.read(&mut buf) {
                    Ok(0) | Err(_) => break,
                    Ok(n) => {
                        fr.feed(&buf[..n]);
                        while sent < fr.frames.len() {
                            let _ = tx.send(Some(fr.frames[sent].clone()));
                            sent += 1;
                        }
                        if fr.error.is_some() {
                            break;
                        }
                    }
                }
            }
            *ferr2.lock().unwrap() = fr.error.clone();
            let _ = tx.send(None);
        });
        Self {
            child,
            stdin,
            rx,
            frame_error: ferr,
            notes: Vec::new(),
        }
    }
    pub fn send(&mut self, msg: &Value) -> bool {
        match self.stdin.as_mut() {
            Some(s) => s.write_all(&frame(msg)).and_then(|_| s.flush()).is_ok(),
            None => false,
        }
    }
    /// Wait for the response with this id; notifications received meanwhile are kept in `notes`.
    /// Err(reason) on end of output or timeout.
    pub fn response(&mut self, id: &Value, bound: Duration) -> Result<Value, String> {
        let t0 = Instant::now();
        loop {
            let left = bound.checked_sub(t0.elapsed()).unwrap_or(Duration::from_millis(0));
            match self.rx.recv_timeout(left) {
                Ok(Some(v)) => {
                    if v.get("method").is_some() {
                        self.notes.push(v);
                    } else if v.get("id") == Some(id) {
                        return Ok(v);
                    } else {
                        return Err(format!("response with unexpected id: {v}"));
                    }
                }
                Ok(None) => return Err("server closed its output (crashed or exited)".into()),
                Err(_) => return Err(format!("no response within {} ms", bound.as_millis())),
            }
        }
    }
    pub fn request(&mut self, id: i64, method: &str, params: Value, bound: Duration) -> Result<Value, String> {
        let idv = Value::from(id);
        if !self.send(&serde_json::json!({"jsonrpc": "2.0", "id": id, "method": method, "params": params})) {
            return Err("cannot write request (server gone)".into());
        }
        self.response(&idv, bound)
    }
    pub fn notify(&mut self, method: &str, params: Value) -> bool {
        self.send(&serde_json::json!({"jsonrpc": "2.0", "method": method, "params": params}))
    }
    pub fn alive(&mut self) -> bool {
        matches!(self.child.try_wait(), Ok(None))
    }
    /// shutdown + exit (+ EOF); returns the exit code if the process ended within the bound
    pub fn finish(mut self, next_id: i64, bound: Duration) -> Option<i32> {
        let _ = self.request(next_id, "shutdown", Value::Null, bound);
        let _ = self.notify("exit", Value::Null);
        self.stdin = None;
        let t0 = Instant::now();
        loop {
            match self.child.try_wait() {
                Ok(Some(st)) => return st.code(),
                Ok(None) => {
                    if t0.elapsed() > bound {
                        let _ = self.child.kill();
                        let _ = self.child.wait();
                        return None;
                    }
                    std::thread::sleep(Duration::from_millis(2));
                }
                Err(_) => return None,
            }
        }
    }
}

impl Drop for Live {
    fn drop(&mut self) {
        self.stdin = None;
        let _ = self.child.kill();
        let _ = self.child.wait();
    }
}
