//! mode `export` (implementation -> specification, C03/C04): the REAL analysis of a text is recorded as one
//! NDJSON line {name, out, kinds, nsyntax}: `out` is the implementation's syntax tree as the bracket stream of
//! the derivation machines (open records with node kind and attribute, close records; no terminals), `kinds`
//! the kinds of the build / semantic diagnostics it reports, `nsyntax` the number of lexical and syntax
//! diagnostics.  TraceStatic.tla judges every recorded tree with SplCheck and accepts the line when the set of
//! violated rules equals `kinds` (trees with syntax diagnostics are only required to be well-formed).
//! Texts: the canonical rendering of every case of the cases file, plus the files named by `files=a,b,c`
//! (the repository's own SPL programs).

use serde_json::{json, Value};
use spl_frontend::error::ErrorMessage;
use spl_frontend::{AnalyzedSource, ErrorContainer};
use std::collections::{BTreeSet, HashMap};
use std::io::Write;
use std::panic::AssertUnwindSafe;
use std::sync::{Arc, Mutex};
use vharness::prog::*;
use vharness::*;

use crate::fe_grammar::{project, PNode};
use crate::fe_static::rule_name;

fn brackets(nodes: &[PNode]) -> Vec<Value> {
    // preorder list with depths -> open/close stream
    let mut out = Vec::new();
    let mut depth_stack: Vec<usize> = Vec::new();
    for n in nodes {
        while let Some(&d) = depth_stack.last() {
            if d >= n.depth {
                out.push(json!({"t": "close", "k": "", "s": ""}));
                depth_stack.pop();
            } else {
                break;
            }
        }
        out.push(json!({"t": "open", "k": n.kind, "s": n.attr}));
        depth_stack.push(n.depth);
    }
    for _ in depth_stack {
        out.push(json!({"t": "close", "k": "", "s": ""}));
    }
    out
}

pub fn record(name: &str, text: &str) -> Result<Value, String> {
    let t = text.to_string();
    let (nodes, errs) = guard(AssertUnwindSafe(move || {
        let src = AnalyzedSource::new(t);
        (project(&src.ast), src.errors())
    }))?;
    let mut kinds: BTreeSet<String> = BTreeSet::new();
    let mut nsyntax = 0usize;
    for e in &errs {
        match &e.1 {
            ErrorMessage::LexErrorMessage(_) | ErrorMessage::ParseErrorMessage(_) => nsyntax += 1,
            _ => {
                kinds.insert(rule_name(e));
            }
        }
    }
    Ok(json!({"name": name, "out": brackets(&nodes), "kinds": kinds.into_iter().collect::<Vec<_>>(), "nsyntax": nsyntax, "nnodes": nodes.len()}))
}

pub fn run(cases: Vec<(String, Value)>, max_fail: usize, opts: &HashMap<String, String>) -> Summary {
    let path = opts.get("ndjson").cloned().expect("ndjson=<path> required");
    let file = Arc::new(Mutex::new(std::io::BufWriter::new(std::fs::File::create(&path).expect("cannot create ndjson file"))));
    // the repository's own programs first
    let mut extra: Vec<(String, Value)> = Vec::new();
    if let Some(fs) = opts.get("files") {
        for f in fs.split(',').filter(|s| !s.is_empty()) {
            let text = std::fs::read_to_string(f).unwrap_or_else(|e| panic!("cannot read {f}: {e}"));
            extra.push(("FILE".to_string(), json!({"file": f, "text": text})));
        }
    }
    let stride: usize = opts.get("stride").and_then(|s| s.parse().ok()).unwrap_or(1).max(1);
    let all: Vec<(String, Value)> = extra.into_iter().chain(cases.into_iter().enumerate().filter(|(i, _)| i % stride == 0).map(|(_, c)| c)).collect();
    let f2 = file.clone();
    let s = run_cases(all, max_fail, move |tag, case| {
        let mut o = Outcome::default();
        let (name, text) = if tag == "FILE" {
            (case["file"].as_str().unwrap_or("?").to_string(), case["text"].as_str().unwrap_or("").to_string())
        } else {
            let p = parse_out(&case["out"]);
            let r = render(&p, &layout(&p, "canon"));
            (format!("{}:{}", tag, case["fault"].as_str().unwrap_or("-")), r.text)
        };
        o.evals = 1;
        o.nontrivial = true;
        match record(&name, &text) {
            Ok(line) => {
                let mut w = f2.lock().unwrap();
                let _ = writeln!(w, "{}", line);
                o.counters.push(("recorded".into(), 1));
                if line["nsyntax"].as_u64() == Some(0) {
                    o.counters.push(("recorded_without_syntax_diagnostics".into(), 1));
                }
            }
            Err(m) => o.failures.push(Failure::new("panic", "", json!({"text": text, "panic": m}))),
        }
        o
    });
    file.lock().unwrap().flush().unwrap();
    s
}
