//! In-process replay of specification cases into spl_frontend.
//! usage: fe <mode> <cases-file> <result.json> [key=value ...]

use serde_json::{json, Value};
use std::collections::HashMap;
use vharness::*;

mod fe_damage;
mod fe_export;
mod fe_grammar;
mod fe_lexer;
mod fe_session;
mod fe_static;

fn main() {
    let args: Vec<String> = std::env::args().collect();
    if args.len() < 4 {
        eprintln!("usage: fe <mode> <cases> <result.json> [k=v ...]");
        std::process::exit(2);
    }
    let mode = args[1].clone();
    let opts: HashMap<String, String> = args[4..]
        .iter()
        .filter_map(|a| a.split_once('=').map(|(k, v)| (k.to_string(), v.to_string())))
        .collect();
    silence_panics();
    if mode == "lextrace" {
        fe_lexer::record_lextrace(&args[2], &args[3], &opts);
        return;
    }
    let cases = read_cases(&args[2]);
    if cases.is_empty() {
        eprintln!("no cases in {}", args[2]);
        std::process::exit(2);
    }
    let max_fail: usize = opts.get("max_fail").and_then(|s| s.parse().ok()).unwrap_or(200);
    let summary = match mode.as_str() {
        "lexer" => run_cases(cases, max_fail, fe_lexer::lexer_case),
        "lexinc" => fe_lexer::run_lexinc(cases, max_fail, &opts),
        "lexchain" => run_cases(cases, max_fail, fe_lexer::lexchain_case),
        "session" => {
            let stride: usize = opts.get("estride").and_then(|s| s.parse().ok()).unwrap_or(1);
            let seed: u64 = opts.get("seed").and_then(|s| s.parse().ok()).unwrap_or(1);
            run_cases(cases, max_fail, move |_t, c| fe_session::session_case(c, stride, seed))
        }
        "session2" => {
            let stride: usize = opts.get("estride").and_then(|s| s.parse().ok()).unwrap_or(1);
            let dstride: usize = opts.get("dstride").and_then(|s| s.parse().ok()).unwrap_or(1);
            let seed: u64 = opts.get("seed").and_then(|s| s.parse().ok()).unwrap_or(1);
            run_cases(cases, max_fail, move |_t, c| fe_session::session2_case(c, stride, seed, dstride))
        }
        "soup" => fe_session::run_soup(cases, max_fail),
        "export" => fe_export::run(cases, max_fail, &opts),
        "history" => run_cases(cases, max_fail, |_t, c| fe_session::history_case(c)),
        "static" => {
            let layouts: Vec<String> = opts
                .get("layouts")
                .map(|s| s.split(',').map(|x| x.to_string()).collect())
                .unwrap_or_else(|| vec!["canon".into(), "min".into(), "nl".into(), "cmtall".into()]);
            let missing = opts.get("missing").map(|s| s == "1").unwrap_or(false);
            run_cases(cases, max_fail, move |_t, c| fe_static::static_case(c, &layouts, missing))
        }
        "damage" => {
            let stride: usize = opts.get("dstride").and_then(|s| s.parse().ok()).unwrap_or(1);
            run_cases(cases, max_fail, move |_t, c| fe_damage::damage_case(c, stride))
        }
        "grammar" => {
            let layouts: Vec<String> = opts
                .get("layouts")
                .map(|s| s.split(',').map(|x| x.to_string()).collect())
                .unwrap_or_else(|| vharness::prog::LAYOUTS.iter().map(|s| s.to_string()).collect());
            let gaps: usize = opts.get("gaps").and_then(|s| s.parse().ok()).unwrap_or(0);
            run_cases(cases, max_fail, move |_t, c| fe_grammar::grammar_case(c, &layouts, gaps))
        }
        _ => {
            eprintln!("unknown mode {mode}");
            std::process::exit(2);
        }
    };
    write_summary(&args[3], &mode, &summary);
    let _ = json!(null) as Value;
    println!(
        "fe {}: cases={} evals={} nontrivial={} failures={}",
        mode, summary.cases, summary.evals, summary.nontrivial, summary.nfail
    );
}
