//! C01 (in-process): SplSession edit histories.  After every edit,
//! `AnalyzedSource::update` must leave exactly what `AnalyzedSource::new` of
//! the resulting text computes: tokens, syntax tree (with every diagnostic
//! attached to it), symbol table, reported errors.
//!
//! mode `session`: cases are programs of the derivation machines (base
//! documents); the harness enumerates EditTokens(i, j, repl) exactly as
//! SplSession.tla defines it (mirror) and EditChars at token boundaries.
//! mode `history`: cases are HISTORY lines of SplSession (simulation): base
//! token list + sequence of edits; compared after every step.

use serde_json::{json, Value};
use spl_frontend::{AnalyzedSource, ErrorContainer, TextChange};
use std::panic::AssertUnwindSafe;
use vharness::prog::*;
use vharness::*;

use crate::fe_damage::{ALPHABET, EXTRA_TOKENS};

pub fn diverging_components(inc: &AnalyzedSource, fresh: &AnalyzedSource) -> Vec<&'static str> {
    let mut v = Vec::new();
    if inc.text != fresh.text {
        v.push("text");
    }
    if inc.tokens != fresh.tokens {
        v.push("tokens");
    }
    if inc.ast != fresh.ast {
        v.push("ast");
    }
    if inc.table != fresh.table {
        v.push("table");
    }
    if inc.errors() != fresh.errors() {
        v.push("errors");
    }
    v
}

/// Does the document carry lexical or syntax diagnostics?
pub fn has_syntax_errors(doc: &AnalyzedSource) -> bool {
    doc.errors().iter().any(|e| matches!(e.1, spl_frontend::error::ErrorMessage::ParseErrorMessage(_) | spl_frontend::error::ErrorMessage::LexErrorMessage(_)))
}

/// site of a divergence.  "broken-base" = the known class: the document was syntactically broken before the
/// edit (or, in a batch, after one of its earlier changes) AND the divergence is a syntactic one (the tree
/// differs, or a lexical/syntax diagnostic is lost/extra, or only the attachment/order of diagnostics differs).
/// Everything else - in particular lost or extra build/semantic diagnostics on an equal tree - keeps its
/// signature and is a violation.
pub fn site_for(broken: bool, d: &[&str], sig: &str) -> String {
    let syntactic = sig.starts_with("tree-differs") || sig.contains("Parse:") || sig.contains("Lex:") || sig.ends_with("lost[] extra[]");
    if broken && syntactic {
        "broken-base".to_string()
    } else {
        format!("{} {}", d.join("+"), sig)
    }
}

/// signature of a divergence: are the trees (structure + ranges) equal, which diagnostic kinds are lost / extra
pub fn signature(inc: &AnalyzedSource, fresh: &AnalyzedSource) -> String {
    let kinds = |s: &AnalyzedSource| { let mut v: Vec<String> = s.errors().iter().map(|e| format!("{}@{:?}", crate::fe_static::rule_name(e), e.0)).collect(); v.sort(); v };
    let (ki, kf) = (kinds(inc), kinds(fresh));
    let mut lost: Vec<String> = kf.iter().filter(|k| !ki.contains(k)).map(|k| k.split('@').next().unwrap_or("").to_string()).collect();
    let mut extra: Vec<String> = ki.iter().filter(|k| !kf.contains(k)).map(|k| k.split('@').next().unwrap_or("").to_string()).collect();
    let ti = crate::fe_grammar::project(&inc.ast);
    let tf = crate::fe_grammar::project(&fresh.ast);
    let same_tree = crate::fe_grammar::first_diff(&ti, &tf).is_none();
    lost.sort(); lost.dedup(); extra.sort(); extra.dedup();
    format!("tree-{} lost[{}] extra[{}]", if same_tree { "same" } else { "differs" }, lost.join(","), extra.join(","))
}

fn one_step(doc: AnalyzedSource, change: TextChange, new_text: &str) -> Result<(AnalyzedSource, Vec<&'static str>, Value), String> {
    let nt = new_text.to_string();
    guard(AssertUnwindSafe(move || {
        let broken = has_syntax_errors(&doc);
        let inc = doc.update(vec![change]);
        let fresh = AnalyzedSource::new(nt);
        let d = diverging_components(&inc, &fresh);
        let info = if d.is_empty() {
            Value::Null
        } else if true {
            let kinds = |s: &AnalyzedSource| { let mut v: Vec<String> = s.errors().iter().map(|e| format!("{}@{:?}", crate::fe_static::rule_name(e), e.0)).collect(); v.sort(); v };
            json!({"signature": signature(&inc, &fresh), "broken_base": broken, "incremental_errors": kinds(&inc), "fresh_errors": kinds(&fresh)})
        } else {
            let es = |s: &AnalyzedSource| s.errors().iter().map(|e| format!("{:?} {}", e.0, e.1.to_string().trim())).collect::<Vec<_>>();
            json!({"incremental_errors": es(&inc), "fresh_errors": es(&fresh),
                   "incremental_tree": crate::fe_grammar::pnodes_json(&crate::fe_grammar::project(&inc.ast)),
                   "fresh_tree": crate::fe_grammar::pnodes_json(&crate::fe_grammar::project(&fresh.ast))})
        };
        (inc, d, info)
    }))
}

use vharness::prog::{join, token_edit};

pub fn session_case(case: &Value, stride: usize, seed: u64) -> Outcome {
    let p = parse_out(&case["out"]);
    let spells: Vec<String> = p.toks.iter().map(|t| t.spell.clone()).collect();
    session_from(spells, stride, seed)
}

/// two-step histories: every single-token damage of the program is a base document of its own
pub fn session2_case(case: &Value, stride: usize, seed: u64, dstride: usize) -> Outcome {
    let p = parse_out(&case["out"]);
    let spells: Vec<String> = p.toks.iter().map(|t| t.spell.clone()).collect();
    let n = spells.len();
    let mut o = Outcome::default();
    let mut counter = fxhash(spells.join(" ").as_bytes()) ^ seed;
    for i in 0..=n {
        let mut variants: Vec<Vec<String>> = Vec::new();
        if i < n {
            let mut v = spells.clone();
            v.remove(i);
            variants.push(v);
        }
        for a in ALPHABET.iter().chain(["proc", "type"].iter()) {
            let mut v = spells.clone();
            v.insert(i, a.to_string());
            variants.push(v);
            if i < n {
                let mut v = spells.clone();
                v[i] = a.to_string();
                variants.push(v);
            }
        }
        for v in variants {
            counter = counter.wrapping_add(1);
            if dstride > 1 && counter % dstride as u64 != 0 {
                continue;
            }
            let r = session_from(v, stride, seed);
            o.evals += r.evals;
            o.failures.extend(r.failures);
            o.counters.extend(r.counters);
            o.nontrivial = true;
            if o.failures.len() > 50 {
                return o;
            }
        }
    }
    o
}

pub fn session_from(spells: Vec<String>, stride: usize, seed: u64) -> Outcome {
    let mut o = Outcome::default();
    let (text, starts) = join(&spells);
    let n = spells.len();
    o.nontrivial = n >= 7;
    let base = match guard(AssertUnwindSafe(|| AnalyzedSource::new(text.clone()))) {
        Ok(b) => b,
        Err(m) => {
            o.failures.push(Failure::new("panic", "base", json!({"text": text, "panic": m})));
            return o;
        }
    };
    let mut counter = fxhash(text.as_bytes()) ^ seed;
    let mut try_edit = |o: &mut Outcome, i: usize, j: usize, repl: &[&str], kind: &str| {
        counter = counter.wrapping_add(1);
        if stride > 1 && counter % stride as u64 != 0 {
            return;
        }
        let (range, ins, new_spells) = token_edit(&spells, &starts, &text, i, j, repl);
        let (new_text, _) = join(&new_spells);
        let mut check = text.clone();
        check.replace_range(range.clone(), &ins);
        if check != new_text {
            eprintln!("harness: token edit does not produce the canonical rendering: {:?} {:?} vs {:?}", (i, j, repl), check, new_text);
            std::process::exit(2);
        }
        o.evals += 1;
        o.counters.push(("edits".into(), 1));
        let change = TextChange { range: range.clone(), text: ins.clone() };
        let edit = json!({"kind": kind, "tokens": [i, j], "replacement": repl, "old": text, "range": [range.start, range.end], "insert": ins, "new": new_text});
        match one_step(base.clone(), change, &new_text) {
            Err(m) => o.failures.push(Failure::new("panic", kind, json!({"edit": edit, "panic": m}))),
            Ok((_, d, info)) => {
                if !d.is_empty() {
                    let sig = info["signature"].as_str().unwrap_or("").to_string();
                    let site = site_for(info["broken_base"].as_bool().unwrap_or(false), &d, &sig);
                    o.failures.push(Failure::new("incremental-differs", &site, json!({"edit": edit, "components": d, "info": info})));
                }
            }
        }
    };
    // EditTokens: delete 1-2 tokens, insert 1 token of every kind, replace by every kind
    for i in 0..=n {
        if i < n {
            try_edit(&mut o, i, i + 1, &[], "delete1");
        }
        if i + 1 < n {
            try_edit(&mut o, i, i + 2, &[], "delete2");
        }
        for a in ALPHABET.iter().chain(["proc", "type"].iter()) {
            try_edit(&mut o, i, i, &[a], "insert");
            if i < n {
                try_edit(&mut o, i, i + 1, &[a], "replace");
            }
        }
    }
    // literals outside the core of SPL and the comment starter `//` (commenting the rest of the line out); not part of the
    // TLC-bound edit count
    let bound = o.counters.iter().filter(|(k, _)| k == "edits").map(|(_, v)| *v).sum::<usize>();
    for i in 0..n {
        for a in EXTRA_TOKENS {
            try_edit(&mut o, i, i + 1, &[a], "replace-extra");
            try_edit(&mut o, i, i, &[a], "insert-extra");
        }
    }
    let all = o.counters.iter().filter(|(k, _)| k == "edits").map(|(_, v)| *v).sum::<usize>();
    o.counters.retain(|(k, _)| k != "edits");
    o.counters.push(("edits".into(), bound));
    o.counters.push(("extra_edits".into(), all - bound));
    o
}

/// mode `history`: HISTORY lines of SplSession (simulation): base token spellings and a sequence of edits
/// (token edits, batches, one character-level edit); the analysed document is carried through `update`
/// and compared with a fresh analysis after every step.
pub fn history_case(case: &Value) -> Outcome {
    let mut o = Outcome::default();
    let (base, steps) = realise_history(case);
    o.nontrivial = steps.len() >= 2;
    let mut doc = match guard(AssertUnwindSafe(|| AnalyzedSource::new(base.clone()))) {
        Ok(d) => d,
        Err(m) => {
            o.failures.push(Failure::new("panic", "base", json!({"text": base, "panic": m})));
            return o;
        }
    };
    let mut before = base;
    for (k, st) in steps.iter().enumerate() {
        o.evals += 1;
        let changes: Vec<TextChange> = st.changes.iter().map(|(r, t)| TextChange { range: r.clone(), text: t.clone() }).collect();
        let nt = st.text_after.clone();
        let edit = json!({"step": k, "edits": st.edits, "old": before, "new": st.text_after,
                          "changes": st.changes.iter().map(|(r, t)| json!([r.start, r.end, t])).collect::<Vec<_>>()});
        let d0 = doc;
        let res = guard(AssertUnwindSafe(move || {
            // broken before the notification, or after one of its earlier changes
            let mut broken = has_syntax_errors(&d0);
            if changes.len() > 1 && !broken {
                let mut t = d0.text.clone();
                for c in &changes[..changes.len() - 1] {
                    t.replace_range(c.range.clone(), &c.text);
                    if has_syntax_errors(&AnalyzedSource::new(t.clone())) {
                        broken = true;
                    }
                }
            }
            let inc = d0.update(changes);
            let fresh = AnalyzedSource::new(nt);
            let d = diverging_components(&inc, &fresh);
            let sig = if d.is_empty() { String::new() } else { site_for(broken, &d, &signature(&inc, &fresh)) };
            (inc, d, sig)
        }));
        match res {
            Err(m) => {
                o.failures.push(Failure::new("panic", "history", json!({"edit": edit, "panic": m})));
                return o;
            }
            Ok((inc, d, sig)) => {
                if !d.is_empty() {
                    o.failures.push(Failure::new("incremental-differs", &sig, json!({"edit": edit, "components": d})));
                    return o;
                }
                doc = inc;
            }
        }
        before = st.text_after.clone();
    }
    o
}

/// mode `soup`: the TEXT states of MC_LexerInc (all texts over the look-ahead alphabet: quotes, slashes,
/// line feeds, multi-byte characters, unterminated literals) as base documents and ALL edits of that
/// graph (the enumeration of fe_lexer's `lexinc`), through the whole pipeline: update() vs new().
pub fn run_soup(cases: Vec<(String, Value)>, max_fail: usize) -> Summary {
    let meta = cases.iter().find(|(t, _)| t == "META").map(|(_, v)| v.clone()).unwrap_or_else(|| {
        eprintln!("soup: META line missing");
        std::process::exit(2)
    });
    let alphabet: Vec<String> = meta["alphabet"].as_array().unwrap().iter().map(|c| c.as_str().unwrap().to_string()).collect();
    let max_len = meta["maxlen"].as_u64().unwrap() as usize;
    let max_ins = meta["maxins"].as_u64().unwrap() as usize;
    let mut inss: Vec<Vec<String>> = vec![vec![]];
    let mut layer: Vec<Vec<String>> = vec![vec![]];
    for _ in 0..max_ins {
        let mut next = Vec::new();
        for s in &layer {
            for c in &alphabet {
                let mut t = s.clone();
                t.push(c.clone());
                next.push(t);
            }
        }
        inss.extend(next.iter().cloned());
        layer = next;
    }
    let inss = std::sync::Arc::new(inss);
    let cases: Vec<(String, Value)> = cases.into_iter().filter(|(t, _)| t == "TEXT").collect();
    run_cases(cases, max_fail, move |_tag, case| {
        let mut o = Outcome::default();
        let names: Vec<String> = case["text"].as_array().unwrap().iter().map(|c| c.as_str().unwrap().to_string()).collect();
        let n = names.len();
        let chars: Vec<&str> = names.iter().map(|s| concretise_char(s)).collect();
        let old_text: String = chars.concat();
        let mut boff = vec![0usize; n + 1];
        for i in 0..n {
            boff[i + 1] = boff[i] + chars[i].len();
        }
        let base = match guard(AssertUnwindSafe(|| AnalyzedSource::new(old_text.clone()))) {
            Ok(b) => b,
            Err(m) => {
                o.failures.push(Failure::new("panic", "base", json!({"text": old_text, "panic": m})));
                return o;
            }
        };
        o.nontrivial = n > 0;
        for lo in 0..=n {
            for hi in lo..=n {
                for ins in inss.iter() {
                    if n - (hi - lo) + ins.len() > max_len {
                        continue;
                    }
                    o.evals += 1;
                    let ins_s: String = ins.iter().map(|c| concretise_char(c)).collect();
                    let mut new_text = String::new();
                    new_text.push_str(&old_text[..boff[lo]]);
                    new_text.push_str(&ins_s);
                    new_text.push_str(&old_text[boff[hi]..]);
                    let change = TextChange { range: boff[lo]..boff[hi], text: ins_s.clone() };
                    let edit = json!({"kind": "chars", "old": old_text, "range": [boff[lo], boff[hi]], "insert": ins_s, "new": new_text});
                    match one_step(base.clone(), change, &new_text) {
                        Err(m) => o.failures.push(Failure::new("panic", "chars", json!({"edit": edit, "panic": m}))),
                        Ok((_, d, info)) => {
                            if !d.is_empty() {
                                let sig = info["signature"].as_str().unwrap_or("").to_string();
                                o.failures.push(Failure::new("incremental-differs", &format!("{} {}", d.join("+"), sig), json!({"edit": edit, "components": d, "info": info})));
                            }
                        }
                    }
                }
            }
        }
        o.counters.push(("edits".into(), o.evals));
        o
    })
}
