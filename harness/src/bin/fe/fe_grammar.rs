//! C04 (and shared helpers for C05/C03): programs of the derivation machine
//! rendered under layouts, parsed by the real parser, and the returned AST
//! projected onto the specification's vocabulary (preorder node list with
//! ABSOLUTE token ranges, obtained by adding the Reference offsets on the path).

use serde_json::{json, Value};
use spl_frontend::ast::*;
use spl_frontend::tokens::{Token, TokenType};
use spl_frontend::{lexer, parser, ErrorContainer, ToRange};
use std::panic::AssertUnwindSafe;
use vharness::prog::*;
use vharness::*;

use crate::fe_lexer::kind_name;

#[derive(Clone, Debug)]
pub struct PNode {
    pub kind: String,
    pub attr: String,
    pub start: usize,
    pub end: usize,
    pub depth: usize,
    /// expected nodes only: a second admissible start (see `expected_nodes`)
    pub alt_start: Option<usize>,
}

impl PartialEq for PNode {
    fn eq(&self, o: &Self) -> bool {
        let starts_ok = self.start == o.start || self.alt_start == Some(o.start) || o.alt_start == Some(self.start);
        self.kind == o.kind && self.attr == o.attr && self.end == o.end && self.depth == o.depth && starts_ok
    }
}

fn push(out: &mut Vec<PNode>, kind: &str, attr: &str, base: usize, r: std::ops::Range<usize>, depth: usize) {
    out.push(PNode { kind: kind.into(), attr: attr.into(), start: base + r.start, end: base + r.end, depth, alt_start: None });
}

fn proj_ident(out: &mut Vec<PNode>, id: &Identifier, base: usize, d: usize) {
    push(out, "Ident", &id.value, base, id.to_range(), d);
}

fn proj_type(out: &mut Vec<PNode>, t: &TypeExpression, base: usize, d: usize) {
    match t {
        TypeExpression::NamedType(id) => push(out, "NamedType", &id.value, base, id.to_range(), d),
        TypeExpression::ArrayType { size, base_type, info } => {
            push(out, "ArrayType", "", base, info.to_range(), d);
            if let Some(s) = size {
                push(out, "IntLit", &s.value.map(|v| v.to_string()).unwrap_or_else(|| "?".into()), base, s.to_range(), d + 1);
            } else {
                out.push(PNode { kind: "MISSING".into(), attr: "size".into(), start: 0, end: 0, depth: d + 1, alt_start: None });
            }
            match base_type {
                Some(b) => proj_type(out, &b.reference, base + b.offset, d + 1),
                None => out.push(PNode { kind: "MISSING".into(), attr: "base".into(), start: 0, end: 0, depth: d + 1, alt_start: None }),
            }
        }
    }
}

fn proj_var(out: &mut Vec<PNode>, v: &Variable, base: usize, d: usize) {
    match v {
        Variable::NamedVariable(id) => push(out, "NamedVar", &id.value, base, id.to_range(), d),
        Variable::ArrayAccess(a) => {
            push(out, "ArrayAccess", "", base, a.info.to_range(), d);
            proj_var(out, &a.array, base, d + 1);
            match &a.index {
                Some(ix) => proj_expr(out, &ix.reference, base + ix.offset, d + 1),
                None => out.push(PNode { kind: "MISSING".into(), attr: "index".into(), start: 0, end: 0, depth: d + 1, alt_start: None }),
            }
        }
    }
}

fn proj_expr(out: &mut Vec<PNode>, e: &Expression, base: usize, d: usize) {
    match e {
        Expression::Binary(b) => {
            push(out, "Binary", &b.operator.to_string(), base, b.info.to_range(), d);
            proj_expr(out, &b.lhs, base, d + 1);
            proj_expr(out, &b.rhs, base, d + 1);
        }
        Expression::Bracketed(b) => {
            push(out, "Bracketed", "", base, b.info.to_range(), d);
            proj_expr(out, &b.expr, base, d + 1);
        }
        Expression::Unary(u) => {
            push(out, "Unary", &u.operator.to_string(), base, u.info.to_range(), d);
            proj_expr(out, &u.expr, base, d + 1);
        }
        Expression::IntLiteral(i) => push(out, "IntLit", &i.value.map(|v| v.to_string()).unwrap_or_else(|| "?".into()), base, i.to_range(), d),
        Expression::Variable(v) => proj_var(out, v, base, d),
        Expression::Error(info) => push(out, "ErrorExpr", "", base, info.to_range(), d),
    }
}

fn proj_opt_expr(out: &mut Vec<PNode>, e: &Option<Reference<Expression>>, base: usize, d: usize, what: &str) {
    match e {
        Some(r) => proj_expr(out, &r.reference, base + r.offset, d),
        None => out.push(PNode { kind: "MISSING".into(), attr: what.into(), start: 0, end: 0, depth: d, alt_start: None }),
    }
}

fn proj_opt_stmt(out: &mut Vec<PNode>, s: &Option<Box<Reference<Statement>>>, base: usize, d: usize, what: &str) {
    match s {
        Some(r) => proj_stmt(out, &r.reference, base + r.offset, d),
        None => out.push(PNode { kind: "MISSING".into(), attr: what.into(), start: 0, end: 0, depth: d, alt_start: None }),
    }
}

pub fn proj_stmt(out: &mut Vec<PNode>, s: &Statement, base: usize, d: usize) {
    match s {
        Statement::Empty(info) => push(out, "Empty", "", base, info.to_range(), d),
        Statement::Assignment(a) => {
            push(out, "Assign", "", base, a.info.to_range(), d);
            proj_var(out, &a.variable, base, d + 1);
            proj_opt_expr(out, &a.expr, base, d + 1, "expr");
        }
        Statement::Call(c) => {
            push(out, "Call", &c.name.value, base, c.info.to_range(), d);
            proj_ident(out, &c.name, base, d + 1);
            for a in &c.arguments {
                proj_expr(out, &a.reference, base + a.offset, d + 1);
            }
        }
        Statement::If(i) => {
            push(out, "If", if i.else_branch.is_some() { "else" } else { "" }, base, i.info.to_range(), d);
            proj_opt_expr(out, &i.condition, base, d + 1, "condition");
            proj_opt_stmt(out, &i.if_branch, base, d + 1, "then");
            if i.else_branch.is_some() {
                proj_opt_stmt(out, &i.else_branch, base, d + 1, "else");
            }
        }
        Statement::While(w) => {
            push(out, "While", "", base, w.info.to_range(), d);
            proj_opt_expr(out, &w.condition, base, d + 1, "condition");
            proj_opt_stmt(out, &w.statement, base, d + 1, "body");
        }
        Statement::Block(b) => {
            push(out, "Block", "", base, b.info.to_range(), d);
            for s in &b.statements {
                proj_stmt(out, &s.reference, base + s.offset, d + 1);
            }
        }
        Statement::Error(info) => push(out, "ErrorStmt", "", base, info.to_range(), d),
    }
}

pub fn proj_global(out: &mut Vec<PNode>, g: &GlobalDeclaration, base: usize, d: usize) {
    match g {
        GlobalDeclaration::Type(t) => {
            push(out, "TypeDec", t.name.as_ref().map(|n| n.value.as_str()).unwrap_or("?"), base, t.info.to_range(), d);
            match &t.name {
                Some(n) => proj_ident(out, n, base, d + 1),
                None => out.push(PNode { kind: "MISSING".into(), attr: "name".into(), start: 0, end: 0, depth: d + 1, alt_start: None }),
            }
            match &t.type_expr {
                Some(te) => proj_type(out, &te.reference, base + te.offset, d + 1),
                None => out.push(PNode { kind: "MISSING".into(), attr: "type".into(), start: 0, end: 0, depth: d + 1, alt_start: None }),
            }
        }
        GlobalDeclaration::Procedure(p) => {
            push(out, "ProcDec", p.name.as_ref().map(|n| n.value.as_str()).unwrap_or("?"), base, p.info.to_range(), d);
            match &p.name {
                Some(n) => proj_ident(out, n, base, d + 1),
                None => out.push(PNode { kind: "MISSING".into(), attr: "name".into(), start: 0, end: 0, depth: d + 1, alt_start: None }),
            }
            for pr in &p.parameters {
                let b = base + pr.offset;
                match &pr.reference {
                    ParameterDeclaration::Valid { is_ref, name, type_expr, info, .. } => {
                        push(out, "Param", if *is_ref { "ref" } else { "" }, b, info.to_range(), d + 1);
                        match name {
                            Some(n) => proj_ident(out, n, b, d + 2),
                            None => out.push(PNode { kind: "MISSING".into(), attr: "name".into(), start: 0, end: 0, depth: d + 2, alt_start: None }),
                        }
                        match type_expr {
                            Some(te) => proj_type(out, &te.reference, b + te.offset, d + 2),
                            None => out.push(PNode { kind: "MISSING".into(), attr: "type".into(), start: 0, end: 0, depth: d + 2, alt_start: None }),
                        }
                    }
                    ParameterDeclaration::Error(info) => push(out, "ErrorParam", "", b, info.to_range(), d + 1),
                }
            }
            for v in &p.variable_declarations {
                let b = base + v.offset;
                match &v.reference {
                    VariableDeclaration::Valid { name, type_expr, info, .. } => {
                        push(out, "VarDec", name.as_ref().map(|n| n.value.as_str()).unwrap_or("?"), b, info.to_range(), d + 1);
                        match name {
                            Some(n) => proj_ident(out, n, b, d + 2),
                            None => out.push(PNode { kind: "MISSING".into(), attr: "name".into(), start: 0, end: 0, depth: d + 2, alt_start: None }),
                        }
                        match type_expr {
                            Some(te) => proj_type(out, &te.reference, b + te.offset, d + 2),
                            None => out.push(PNode { kind: "MISSING".into(), attr: "type".into(), start: 0, end: 0, depth: d + 2, alt_start: None }),
                        }
                    }
                    VariableDeclaration::Error(info) => push(out, "ErrorVar", "", b, info.to_range(), d + 1),
                }
            }
            for s in &p.statements {
                proj_stmt(out, &s.reference, base + s.offset, d + 1);
            }
        }
        GlobalDeclaration::Error(info) => push(out, "ErrorDecl", "", base, info.to_range(), d),
    }
}

pub fn project(p: &Program) -> Vec<PNode> {
    let mut out = Vec::new();
    push(&mut out, "Program", "", 0, p.info.to_range(), 0);
    for g in &p.global_declarations {
        proj_global(&mut out, &g.reference, g.offset, 1);
    }
    out
}

pub fn pnodes_json(v: &[PNode]) -> Value {
    Value::Array(v.iter().map(|n| json!(format!("{}{}({}) {}..{}", "  ".repeat(n.depth), n.kind, n.attr, n.start, n.end))).collect())
}

/// expected node list of a program under a rendering
pub fn expected_nodes(p: &Prog, r: &Rendered) -> Vec<PNode> {
    // Comments in front of a declaration (type, procedure, variable, parameter) are its doc comments.
    // A node that begins at the same terminal as such a declaration (the name of a parameter without
    // `ref`) may be reported with or without them: the statement is silent, both are accepted.
    let docful = |k: &str| matches!(k, "TypeDec" | "ProcDec" | "VarDec" | "Param");
    p.nodes
        .iter()
        .map(|n| {
            let (s, e) = extent(n, r);
            let mut alt = None;
            let mut a = n.parent;
            while let Some(i) = a {
                if docful(&p.nodes[i].kind) && p.nodes[i].first == n.first && n.first < r.tok_index.len() {
                    alt = Some(r.tok_index[n.first]);
                }
                a = p.nodes[i].parent;
            }
            PNode { kind: n.kind.clone(), attr: n.attr.clone(), start: s, end: e, depth: n.depth, alt_start: alt }
        })
        .collect()
}

/// Do the implementation's tokens match the predicted lexical tokens of the rendering?
pub fn check_tokens(toks: &[Token], r: &Rendered, p: &Prog) -> Result<(), String> {
    if toks.len() != r.lex.len() + 1 {
        return Err(format!("{} tokens, predicted {} (+Eof)", toks.len(), r.lex.len()));
    }
    for (i, (t, x)) in toks.iter().zip(r.lex.iter()).enumerate() {
        match (&x.comment, x.tok) {
            (Some(c), _) => {
                if !matches!(&t.token_type, TokenType::Comment(s) if s == c) {
                    return Err(format!("token {i}: {:?}, predicted comment {c:?}", t.token_type));
                }
            }
            (None, Some(k)) => {
                if kind_name(&t.token_type) != p.toks[k].kind {
                    return Err(format!("token {i}: {:?}, predicted {} {:?}", t.token_type, p.toks[k].kind, p.toks[k].spell));
                }
                if t.range != (x.start..x.end) {
                    return Err(format!("token {i}: range {:?}, predicted {}..{}", t.range, x.start, x.end));
                }
            }
            _ => {}
        }
    }
    Ok(())
}

pub fn first_diff(got: &[PNode], exp: &[PNode]) -> Option<String> {
    for (i, (g, e)) in got.iter().zip(exp.iter()).enumerate() {
        // mandated attribute "?": the specification gives no value (character literals outside ASCII are not SPL)
        let same = if e.attr == "?" { g.kind == e.kind && g.depth == e.depth && g.start == e.start && g.end == e.end } else { g == e };
        if !same {
            let what = if g.kind != e.kind || g.attr != e.attr || g.depth != e.depth { "structure" } else { "range" };
            return Some(format!("{what}: node {i}: got {}({}) {}..{} depth {}, mandated {}({}) {}..{} depth {}",
                                g.kind, g.attr, g.start, g.end, g.depth, e.kind, e.attr, e.start, e.end, e.depth));
        }
    }
    if got.len() != exp.len() {
        return Some(format!("structure: {} nodes, mandated {}", got.len(), exp.len()));
    }
    None
}

/// mode `grammar` (C04): case = {out: [...]}; options layouts=a,b,c  gaps=all|none|sample
pub fn grammar_case(case: &Value, layouts: &[String], single_gaps: usize) -> Outcome {
    let mut o = Outcome::default();
    let mut p = parse_out(&case["out"]);
    distinct_literals(&mut p);
    let p = p;
    o.nontrivial = p.toks.len() >= 7;
    let mut names: Vec<String> = layouts.to_vec();
    // a comment line in single gaps in turn
    let n = p.toks.len();
    if single_gaps > 0 && n > 0 {
        let step = ((n + 1) / single_gaps.min(n + 1)).max(1);
        let mut g = 0;
        while g <= n {
            names.push(format!("cmt@{g}"));
            g += step;
        }
    }
    let mut trees: Vec<(String, Vec<(String, String, usize)>)> = Vec::new();
    for name in names {
        let l = layout(&p, &name);
        let r = render(&p, &l);
        o.evals += 1;
        let res = guard(AssertUnwindSafe(|| {
            let toks = lexer::lex(&r.text);
            let ast = parser::parse(&toks);
            (toks, ast)
        }));
        let (toks, ast) = match res {
            Ok(x) => x,
            Err(m) => {
                o.failures.push(Failure::new("panic", &name, json!({"layout": name, "text": r.text, "panic": m})));
                continue;
            }
        };
        if let Err(why) = check_tokens(&toks, &r, &p) {
            // the rendering did not lex as predicted: C06's business, and a harness problem here
            o.failures.push(Failure::new("tokens-unexpected", &name, json!({"layout": name, "text": r.text, "why": why})));
            continue;
        }
        let got = project(&ast);
        let exp = expected_nodes(&p, &r);
        if let Some(d) = first_diff(&got, &exp) {
            let what = if d.starts_with("structure") { "tree-structure" } else { "node-range" };
            o.failures.push(Failure::new(
                what,
                &name.split('@').next().unwrap_or("").to_string(),
                json!({"layout": name, "text": r.text, "why": d, "got": pnodes_json(&got), "mandated": pnodes_json(&exp)}),
            ));
            continue;
        }
        let mut errs = ast.errors();
        errs.extend(toks.errors());
        if !errs.is_empty() {
            o.failures.push(Failure::new(
                "syntax-diagnostic",
                "",
                json!({"layout": name, "text": r.text, "errors": errs.iter().map(|e| format!("{:?} {}", e.0, e.1)).collect::<Vec<_>>()}),
            ));
            continue;
        }
        // layout independence: same tree modulo comment tokens
        trees.push((name.clone(), got.iter().map(|n| (n.kind.clone(), n.attr.clone(), n.depth)).collect()));
    }
    if let Some((n0, t0)) = trees.first() {
        for (n, t) in trees.iter().skip(1) {
            if t != t0 {
                o.failures.push(Failure::new("layout-dependent", "", json!({"layouts": [n0, n]})));
                break;
            }
        }
    }
    o
}
