//! C06 / C07 replays: reference lexer cases, incremental-lexing transitions.

use serde_json::{json, Value};
use spl_frontend::error::{ErrorMessage, LexErrorMessage, SplError};
use spl_frontend::lexer;
use spl_frontend::tokens::{IntResult, Token, TokenChange, TokenType};
use spl_frontend::TextChange;
use std::collections::HashMap;
use std::panic::AssertUnwindSafe;
use std::sync::Arc;
use vharness::*;

pub fn kind_name(t: &TokenType) -> &'static str {
    use TokenType::*;
    match t {
        LParen => "LParen",
        RParen => "RParen",
        LBracket => "LBracket",
        RBracket => "RBracket",
        LCurly => "LCurly",
        RCurly => "RCurly",
        Eq => "Eq",
        Neq => "Neq",
        Lt => "Lt",
        Le => "Le",
        Gt => "Gt",
        Ge => "Ge",
        Assign => "Assign",
        Colon => "Colon",
        Comma => "Comma",
        Semic => "Semic",
        Plus => "Plus",
        Minus => "Minus",
        Times => "Times",
        Divide => "Divide",
        If => "If",
        Else => "Else",
        While => "While",
        Array => "Array",
        Of => "Of",
        Proc => "Proc",
        Ref => "Ref",
        Type => "Type",
        Var => "Var",
        Ident(_) => "Ident",
        Char(_) => "Char",
        Int(_) => "Int",
        Hex(_) => "Hex",
        Comment(_) => "Comment",
        Unknown(_) => "Unknown",
        Eof => "Eof",
    }
}

pub fn err_name(e: &SplError) -> String {
    match &e.1 {
        ErrorMessage::LexErrorMessage(m) => match m {
            LexErrorMessage::MissingClosingTick => "MissingClosingTick".into(),
            LexErrorMessage::ExpectedHexNumber => "ExpectedHexNumber".into(),
            LexErrorMessage::InvalidIntLit(_) => "InvalidIntLit".into(),
        },
        other => format!("{:?}", other),
    }
}

pub fn tok_json(t: &Token) -> Value {
    let (v, s): (Value, Value) = match &t.token_type {
        TokenType::Ident(s) | TokenType::Comment(s) | TokenType::Unknown(s) => (json!(0), json!(s)),
        TokenType::Char(c) => (json!(0), json!(c.to_string())),
        TokenType::Int(IntResult::Int(i)) | TokenType::Hex(IntResult::Int(i)) => (json!(i), json!("")),
        TokenType::Int(IntResult::Err(s)) | TokenType::Hex(IntResult::Err(s)) => (json!(-1), json!(s)),
        _ => (json!(0), json!("")),
    };
    json!({"k": kind_name(&t.token_type), "b": t.range.start, "e": t.range.end, "v": v, "s": s,
           "errs": t.errors.iter().map(|e| json!([err_name(e), e.0.start, e.0.end])).collect::<Vec<_>>()})
}

pub fn toks_json(ts: &[Token]) -> Value {
    Value::Array(ts.iter().map(tok_json).collect())
}

fn is_spl_blank(c: char) -> bool {
    c == ' ' || c == '\t' || c == '\r' || c == '\n'
}

/// Tiling part of C06: holds for every text.
pub fn check_tiling(text: &str, toks: &[Token]) -> Result<(), String> {
    if toks.is_empty() {
        return Err("no tokens at all".into());
    }
    let n = toks.len();
    let mut pos = 0usize;
    for (i, t) in toks.iter().enumerate() {
        let is_eof = matches!(t.token_type, TokenType::Eof);
        if is_eof != (i == n - 1) {
            return Err(format!("Eof token at index {i} of {n} / missing final Eof"));
        }
        if t.range.start < pos {
            return Err(format!("token {i} starts at {} before previous end {pos}", t.range.start));
        }
        if t.range.end < t.range.start || t.range.end > text.len() {
            return Err(format!("token {i} has range {:?} outside text of {} bytes", t.range, text.len()));
        }
        if !text.is_char_boundary(t.range.start) || !text.is_char_boundary(t.range.end) {
            return Err(format!("token {i} range {:?} not on character boundaries", t.range));
        }
        if !is_eof && t.range.is_empty() {
            return Err(format!("token {i} is empty"));
        }
        if let Some(c) = text[pos..t.range.start].chars().find(|c| !is_spl_blank(*c)) {
            return Err(format!("character {c:?} between byte {pos} and {} is covered by no token", t.range.start));
        }
        pos = t.range.end;
    }
    let last = &toks[n - 1];
    if last.range != (text.len()..text.len()) {
        return Err(format!("Eof token at {:?}, text length {}", last.range, text.len()));
    }
    Ok(())
}

/// Compare one implementation token with the specified one (valid lexemes only).
fn conform_token(text: &str, got: &Token, exp: &Value) -> Result<(), String> {
    let k = exp["k"].as_str().unwrap_or("");
    if kind_name(&got.token_type) != k {
        return Err(format!("kind {} expected {}", kind_name(&got.token_type), k));
    }
    let b = exp["b"].as_u64().unwrap() as usize;
    let e = exp["e"].as_u64().unwrap() as usize;
    if got.range.start != b {
        return Err(format!("start {} expected {}", got.range.start, b));
    }
    if k == "Comment" {
        // the line terminator may or may not belong to the comment token
        let bytes = text.as_bytes();
        let mut ok_ends = vec![e];
        if e < bytes.len() && bytes[e] == b'\n' {
            ok_ends.push(e + 1);
        }
        if e > b + 2 && bytes[e - 1] == b'\r' {
            ok_ends.push(e - 1);
        }
        if !ok_ends.contains(&got.range.end) {
            return Err(format!("comment end {} expected one of {:?}", got.range.end, ok_ends));
        }
    } else if got.range.end != e {
        return Err(format!("end {} expected {}", got.range.end, e));
    }
    let spelled = concretise(&exp["s"]);
    match &got.token_type {
        TokenType::Ident(s) => {
            if *s != spelled {
                return Err(format!("identifier {s:?} expected {spelled:?}"));
            }
        }
        TokenType::Comment(s) => {
            if s.trim_end_matches('\r') != spelled.trim_end_matches('\r') {
                return Err(format!("comment text {s:?} expected {spelled:?}"));
            }
        }
        TokenType::Char(c) => {
            if c.to_string() != spelled {
                return Err(format!("char value {c:?} expected {spelled:?}"));
            }
        }
        TokenType::Int(r) | TokenType::Hex(r) => {
            let v = exp["v"].as_u64().unwrap();
            match r {
                IntResult::Int(i) if *i as u64 == v => {}
                other => return Err(format!("literal value {other:?} expected {v}")),
            }
        }
        _ => {}
    }
    if !got.errors.is_empty() {
        return Err(format!("valid lexeme carries lexical errors {:?}", got.errors));
    }
    Ok(())
}

/// mode `lexer`: case = {text:[names], valid:bool, toks:[...]}
pub fn lexer_case(_tag: &str, case: &Value) -> Outcome {
    let mut o = Outcome::default();
    let text = concretise(&case["text"]);
    let valid = case["valid"].as_bool().unwrap_or(false);
    let exp = case["toks"].as_array().cloned().unwrap_or_default();
    o.evals = 1;
    o.nontrivial = exp.len() > 1;
    let toks = match guard(AssertUnwindSafe(|| lexer::lex(&text))) {
        Ok(t) => t,
        Err(m) => {
            o.failures.push(Failure::new("lex-panic", "", json!({"text": text, "panic": m})));
            return o;
        }
    };
    if let Err(m) = check_tiling(&text, &toks) {
        o.failures.push(Failure::new("tiling", "", json!({"text": text, "why": m, "got": toks_json(&toks)})));
        return o;
    }
    if valid {
        o.counters.push(("valid_texts".into(), 1));
        if toks.len() != exp.len() {
            o.failures.push(Failure::new(
                "token-count",
                "",
                json!({"text": text, "got": toks_json(&toks), "expected": exp}),
            ));
            return o;
        }
        for (i, (g, e)) in toks.iter().zip(exp.iter()).enumerate() {
            if let Err(m) = conform_token(&text, g, e) {
                o.failures.push(Failure::new(
                    "token-differs",
                    "",
                    json!({"text": text, "index": i, "why": m, "got": toks_json(&toks), "expected": exp}),
                ));
                return o;
            }
        }
    } else {
        // model-drift note only (not a violation): does the error-tolerant tokenisation
        // have the shape the specification describes?
        let same = toks.len() == exp.len()
            && toks.iter().zip(exp.iter()).all(|(g, e)| {
                kind_name(&g.token_type) == e["k"].as_str().unwrap_or("")
                    && g.range.start as u64 == e["b"].as_u64().unwrap()
                    && (g.range.end as u64 == e["e"].as_u64().unwrap() || e["k"] == "Comment")
            });
        o.counters.push((if same { "invalid_same_shape" } else { "invalid_other_shape" }.into(), 1));
    }
    o
}

// ---------------------------------------------------------------------------
// C07

fn shift_range(r: &std::ops::Range<usize>, d: isize) -> Option<std::ops::Range<usize>> {
    let s = r.start as isize + d;
    let e = r.end as isize + d;
    if s < 0 || e < 0 {
        None
    } else {
        Some(s as usize..e as usize)
    }
}

fn shifted(t: &Token, d: isize) -> Option<Token> {
    let mut n = t.clone();
    n.range = shift_range(&t.range, d)?;
    for e in n.errors.iter_mut() {
        e.0 = shift_range(&e.0, d)?;
    }
    Some(n)
}

/// The contract of incremental lexing, evaluated on one implementation step.
pub fn check_inc_step(
    old_toks: &[Token],
    new_text: &str,
    change: &TextChange,
    got: &[Token],
    win: &TokenChange,
    fresh: &[Token],
) -> Result<(), (String, String)> {
    if got != fresh {
        // which aspect differs? (used as site signature)
        let aspect = if got.len() != fresh.len() {
            "count"
        } else if got.iter().zip(fresh).any(|(a, b)| a.token_type != b.token_type) {
            "kinds"
        } else if got.iter().zip(fresh).any(|(a, b)| a.range != b.range) {
            "ranges"
        } else {
            "errors"
        };
        return Err((
            format!("tokens-differ-{aspect}"),
            format!("updated tokens differ from fresh tokenisation of {:?}", new_text),
        ));
    }
    let delta = change.text.len() as isize - change.range.len() as isize;
    let w = &win.deletion_range;
    if w.start > w.end || w.end > old_toks.len() {
        return Err(("window-shape".into(), format!("window {:?} outside old token list of {}", w, old_toks.len())));
    }
    if got.len() + w.len() != old_toks.len() + win.insertion_len {
        return Err((
            "window-length".into(),
            format!("len(new)={} != len(old)={} - {} + {}", got.len(), old_toks.len(), w.len(), win.insertion_len),
        ));
    }
    if got.len() < w.start + win.insertion_len {
        return Err(("window-shape".into(), "window exceeds new token list".into()));
    }
    if got[..w.start] != old_toks[..w.start] {
        return Err(("window-head".into(), format!("tokens before window {:?} are not the old ones", w)));
    }
    let new_tail = &got[w.start + win.insertion_len..];
    let old_tail = &old_toks[w.end..];
    if new_tail.len() != old_tail.len() {
        return Err(("window-tail".into(), "tail lengths differ".into()));
    }
    for (n, o) in new_tail.iter().zip(old_tail) {
        match shifted(o, delta) {
            Some(s) if &s == n => {}
            _ => {
                return Err((
                    "window-tail".into(),
                    format!("token after window is not the old one shifted by {delta}: old {:?} new {:?}", o, n),
                ))
            }
        }
    }
    Ok(())
}

struct IncCtx {
    alphabet: Vec<String>,
    max_len: usize,
    max_ins: usize,
}

fn ins_strings(alpha: &[String], max_ins: usize) -> Vec<Vec<String>> {
    let mut all: Vec<Vec<String>> = vec![vec![]];
    let mut layer: Vec<Vec<String>> = vec![vec![]];
    for _ in 0..max_ins {
        let mut next = Vec::new();
        for s in &layer {
            for c in alpha {
                let mut t = s.clone();
                t.push(c.clone());
                next.push(t);
            }
        }
        all.extend(next.iter().cloned());
        layer = next;
    }
    all
}

/// mode `lexinc`: the cases are the TEXT states of MC_LexerInc; every edit
/// transition of the specification's state graph is replayed.  META line
/// gives MaxLen, MaxIns and the alphabet.
pub fn run_lexinc(cases: Vec<(String, Value)>, max_fail: usize, _opts: &HashMap<String, String>) -> Summary {
    let meta = cases
        .iter()
        .find(|(t, _)| t == "META")
        .map(|(_, v)| v.clone())
        .unwrap_or_else(|| {
            eprintln!("lexinc: META line missing");
            std::process::exit(2)
        });
    let alphabet: Vec<String> = meta["alphabet"].as_array().unwrap().iter().map(|c| c.as_str().unwrap().to_string()).collect();
    let ctx = Arc::new(IncCtx {
        alphabet,
        max_len: meta["maxlen"].as_u64().unwrap() as usize,
        max_ins: meta["maxins"].as_u64().unwrap() as usize,
    });
    let inss = Arc::new(ins_strings(&ctx.alphabet, ctx.max_ins));
    let cases: Vec<(String, Value)> = cases.into_iter().filter(|(t, _)| t == "TEXT").collect();
    let c2 = ctx.clone();
    run_cases(cases, max_fail, move |_tag, case| {
        let ctx = &c2;
        let mut o = Outcome::default();
        let names: Vec<String> = case["text"].as_array().unwrap().iter().map(|c| c.as_str().unwrap().to_string()).collect();
        let n = names.len();
        let chars: Vec<&str> = names.iter().map(|s| concretise_char(s)).collect();
        let old_text: String = chars.concat();
        let mut boff = vec![0usize; n + 1];
        for i in 0..n {
            boff[i + 1] = boff[i] + chars[i].len();
        }
        let old_toks = match guard(AssertUnwindSafe(|| lexer::lex(&old_text))) {
            Ok(t) => t,
            Err(m) => {
                o.failures.push(Failure::new("lex-panic", "", json!({"text": old_text, "panic": m})));
                return o;
            }
        };
        o.nontrivial = n > 0;
        let mut trans = 0usize;
        for lo in 0..=n {
            for hi in lo..=n {
                for ins in inss.iter() {
                    if n - (hi - lo) + ins.len() > ctx.max_len {
                        continue;
                    }
                    trans += 1;
                    let ins_s: String = ins.iter().map(|c| concretise_char(c)).collect();
                    let mut new_text = String::with_capacity(old_text.len() + ins_s.len());
                    new_text.push_str(&old_text[..boff[lo]]);
                    new_text.push_str(&ins_s);
                    new_text.push_str(&old_text[boff[hi]..]);
                    let change = TextChange { range: boff[lo]..boff[hi], text: ins_s.clone() };
                    let r = guard(AssertUnwindSafe(|| {
                        let fresh = lexer::lex(&new_text);
                        let (got, win) = lexer::update(&new_text, old_toks.clone(), &change);
                        (fresh, got, win)
                    }));
                    let edit = json!({"old": old_text, "lo": boff[lo], "hi": boff[hi], "ins": ins_s, "new": new_text});
                    match r {
                        Err(m) => o.failures.push(Failure::new("update-panic", "", json!({"edit": edit, "panic": m}))),
                        Ok((fresh, got, win)) => {
                            if let Err((what, why)) = check_inc_step(&old_toks, &new_text, &change, &got, &win, &fresh) {
                                o.failures.push(Failure::new(
                                    &what,
                                    "",
                                    json!({"edit": edit, "why": why, "old_tokens": toks_json(&old_toks), "got": toks_json(&got),
                                           "fresh": toks_json(&fresh),
                                           "window": [win.deletion_range.start, win.deletion_range.end, win.insertion_len]}),
                                ));
                            }
                        }
                    }
                }
            }
        }
        o.evals = trans;
        o.counters.push(("transitions".into(), trans));
        o
    })
}

/// mode `lexchain`: case = {init:[names], steps:[{lo,hi,ins:[names]}]} with
/// lo/hi character offsets into the text current at that step; the token
/// vector is carried through `update` and compared after every step.
pub fn lexchain_case(_tag: &str, case: &Value) -> Outcome {
    let mut o = Outcome::default();
    let mut names: Vec<String> = case["init"].as_array().unwrap().iter().map(|c| c.as_str().unwrap().to_string()).collect();
    let steps = case["steps"].as_array().cloned().unwrap_or_default();
    o.nontrivial = steps.len() >= 2;
    let mut text: String = names.iter().map(|s| concretise_char(s)).collect();
    let mut toks = match guard(AssertUnwindSafe(|| lexer::lex(&text))) {
        Ok(t) => t,
        Err(m) => {
            o.failures.push(Failure::new("lex-panic", "", json!({"text": text, "panic": m})));
            return o;
        }
    };
    for (si, st) in steps.iter().enumerate() {
        let lo = st["lo"].as_u64().unwrap() as usize;
        let hi = st["hi"].as_u64().unwrap() as usize;
        let ins: Vec<String> = st["ins"].as_array().unwrap().iter().map(|c| c.as_str().unwrap().to_string()).collect();
        if lo > hi || hi > names.len() {
            eprintln!("bad chain step");
            std::process::exit(2);
        }
        let bo = |k: usize| -> usize { names[..k].iter().map(|s| concretise_char(s).len()).sum() };
        let (blo, bhi) = (bo(lo), bo(hi));
        let ins_s: String = ins.iter().map(|c| concretise_char(c)).collect();
        let mut new_text = String::new();
        new_text.push_str(&text[..blo]);
        new_text.push_str(&ins_s);
        new_text.push_str(&text[bhi..]);
        let change = TextChange { range: blo..bhi, text: ins_s.clone() };
        o.evals += 1;
        let old = toks.clone();
        let r = guard(AssertUnwindSafe(|| {
            let fresh = lexer::lex(&new_text);
            let (got, win) = lexer::update(&new_text, old.clone(), &change);
            (fresh, got, win)
        }));
        let edit = json!({"step": si, "old": text, "lo": blo, "hi": bhi, "ins": ins_s, "new": new_text});
        match r {
            Err(m) => {
                o.failures.push(Failure::new("update-panic", "", json!({"edit": edit, "panic": m})));
                return o;
            }
            Ok((fresh, got, win)) => {
                if let Err((what, why)) = check_inc_step(&toks, &new_text, &change, &got, &win, &fresh) {
                    o.failures.push(Failure::new(
                        &what,
                        "",
                        json!({"edit": edit, "why": why, "got": toks_json(&got), "fresh": toks_json(&fresh),
                               "window": [win.deletion_range.start, win.deletion_range.end, win.insertion_len]}),
                    ));
                    return o;
                }
                toks = got;
            }
        }
        names.splice(lo..hi, ins);
        text = new_text;
    }
    o
}

/// mode `lextrace`: RECORD direction.  Generates `n` random texts (seeded),
/// lexes them with the implementation and writes one NDJSON record per text
/// in the vocabulary of TraceLexer.tla.  Nothing is judged here.
pub fn record_lextrace(out_path: &str, summary_path: &str, opts: &HashMap<String, String>) {
    use std::io::Write;
    let n: usize = opts.get("n").and_then(|s| s.parse().ok()).unwrap_or(200);
    let maxlen: usize = opts.get("maxlen").and_then(|s| s.parse().ok()).unwrap_or(120);
    let seed: u64 = opts.get("seed").and_then(|s| s.parse().ok()).unwrap_or(1);
    let mut rng = Rng::new(seed);
    let pieces: Vec<&str> = vec![
        "(", ")", "[", "]", "{", "}", "=", "#", "<", "<=", ">", ">=", ":=", ":", ",", ";", "+", "-", "*", "/", "if", "else",
        "while", "array", "of", "proc", "ref", "type", "var", "x", "_", "ifx", "If", "a_1", "main", "0", "007", "123456789",
        "42", "0x0", "0xfF", "0x7ffffff", "'a'", "'\\n'", "'''", "'\\'", "'\u{142}'", "' '", "//\n", "// x \n", "//\u{20AC}'//\n",
        " ", " ", " ", "\n", "\t", "\r\n", "  ", "'", "\\", "\u{142}", "\u{20AC}", "\u{1F600}", "0x", "//", "$", "\"", "'\\n",
    ];
    let mut f = std::io::BufWriter::new(std::fs::File::create(out_path).expect("cannot create trace file"));
    let mut panics = 0usize;
    let mut written = 0usize;
    for _ in 0..n {
        let target = 1 + rng.below(maxlen);
        let mut text = String::new();
        while text.chars().count() < target {
            text.push_str(pieces[rng.below(pieces.len())]);
        }
        let names: Vec<String> = text.chars().filter_map(char_name).collect();
        let toks = match guard(AssertUnwindSafe(|| lexer::lex(&text))) {
            Ok(t) => t,
            Err(m) => {
                panics += 1;
                // a panic is recorded as an empty token list: the specification rejects it (tiling)
                let rec = json!({"text": names, "toks": [], "panic": m});
                writeln!(f, "{}", rec).unwrap();
                written += 1;
                continue;
            }
        };
        let tj: Vec<Value> = toks
            .iter()
            .map(|t| {
                let (v, s): (u64, Vec<String>) = match &t.token_type {
                    TokenType::Ident(s) | TokenType::Unknown(s) => (0, s.chars().filter_map(char_name).collect()),
                    TokenType::Comment(s) => (0, s.chars().filter_map(char_name).collect()),
                    TokenType::Char(c) => (0, char_name(*c).into_iter().collect()),
                    TokenType::Int(IntResult::Int(i)) | TokenType::Hex(IntResult::Int(i)) => (*i as u64, vec![]),
                    _ => (0, vec![]),
                };
                json!({"k": kind_name(&t.token_type), "b": t.range.start, "e": t.range.end, "v": v, "s": s, "nerr": t.errors.len()})
            })
            .collect();
        writeln!(f, "{}", json!({"text": names, "toks": tj})).unwrap();
        written += 1;
    }
    f.flush().unwrap();
    std::fs::write(summary_path, serde_json::to_vec(&json!({"records": written, "panics": panics})).unwrap()).unwrap();
    println!("fe lextrace: recorded {written} texts ({panics} panics) into {out_path}");
}
