//! C03: programs of the attribute-directed derivation machine (SplStatic):
//! well-typed programs must get NO diagnostic under any layout; programs that
//! carry exactly one fault production must get the diagnostic of that rule, on
//! the culprit construct, and no diagnostic of any other rule.  Missing-token
//! syntax faults are derived from the valid programs by deleting one token the
//! grammar requires.

use serde_json::{json, Value};
use spl_frontend::error::{ErrorMessage, ParseErrorMessage, SplError};
use spl_frontend::{AnalyzedSource, ErrorContainer};
use std::panic::AssertUnwindSafe;
use vharness::prog::*;
use vharness::*;

pub fn rule_name(e: &SplError) -> String {
    let s = match &e.1 {
        ErrorMessage::LexErrorMessage(m) => format!("Lex:{:?}", m),
        ErrorMessage::ParseErrorMessage(m) => format!("Parse:{:?}", m),
        ErrorMessage::BuildErrorMessage(m) => format!("{:?}", m),
        ErrorMessage::SemanticErrorMessage(m) => format!("{:?}", m),
    };
    s.split('(').next().unwrap_or("").to_string()
}

fn errs_json(errs: &[SplError]) -> Value {
    Value::Array(errs.iter().map(|e| json!(format!("{} {:?} {}", rule_name(e), e.0, e.1.to_string().trim()))).collect())
}

fn analyze(text: &str) -> Result<Vec<SplError>, String> {
    let t = text.to_string();
    guard(AssertUnwindSafe(move || AnalyzedSource::new(t).errors()))
}

/// byte extent of a node in a rendering: from its first comment to the end of its last token
fn byte_extent(n: &Node, r: &Rendered) -> (usize, usize) {
    let (a, b) = extent(n, r);
    if b == 0 || a >= r.lex.len() {
        return (0, 0);
    }
    (r.lex[a].start, r.lex[b - 1].end)
}

pub fn static_case(case: &Value, layouts: &[String], missing_tokens: bool) -> Outcome {
    let mut o = Outcome::default();
    let p = parse_out(&case["out"]);
    let fault = case["fault"].as_str().unwrap_or("none").to_string();
    o.nontrivial = p.toks.len() >= 9;
    o.counters.push((format!("fault:{fault}"), 1));
    for name in layouts {
        let l = layout(&p, name);
        let r = render(&p, &l);
        o.evals += 1;
        let errs = match analyze(&r.text) {
            Ok(e) => e,
            Err(m) => {
                o.failures.push(Failure::new("panic", &fault, json!({"layout": name, "text": r.text, "panic": m})));
                continue;
            }
        };
        // every range inside the document
        if let Some(e) = errs.iter().find(|e| e.0.end > r.text.len() || e.0.start > e.0.end) {
            o.failures.push(Failure::new("range-outside-document", &rule_name(e), json!({"layout": name, "text": r.text, "diagnostics": errs_json(&errs)})));
            continue;
        }
        if fault == "none" {
            if !errs.is_empty() {
                o.failures.push(Failure::new(
                    "diagnostic-on-valid-program",
                    &rule_name(&errs[0]),
                    json!({"layout": name, "text": r.text, "diagnostics": errs_json(&errs)}),
                ));
            }
            continue;
        }
        let kinds: std::collections::BTreeSet<String> = errs.iter().map(rule_name).collect();
        if !kinds.contains(&fault) {
            o.failures.push(Failure::new("rule-not-reported", &fault, json!({"layout": name, "text": r.text, "rule": fault, "diagnostics": errs_json(&errs)})));
            continue;
        }
        if let Some(other) = kinds.iter().find(|k| **k != fault) {
            o.failures.push(Failure::new(
                "unviolated-rule-reported",
                &format!("{fault}->{other}"),
                json!({"layout": name, "text": r.text, "rule": fault, "diagnostics": errs_json(&errs)}),
            ));
            continue;
        }
        // on the culprit
        if fault != "MainIsMissing" {
            let culprit = if fault == "MainMustNotHaveParameters" {
                p.nodes.iter().find(|n| n.kind == "ProcDec" && n.attr == "main")
            } else {
                p.nodes.iter().find(|n| n.kind == "CULPRIT" && n.attr == fault)
            };
            match culprit {
                None => {
                    eprintln!("case with fault {fault} has no culprit bracket");
                    std::process::exit(2);
                }
                Some(c) => {
                    let (a, b) = byte_extent(c, &r);
                    if let Some(e) = errs.iter().find(|e| e.0.start < a || e.0.end > b) {
                        o.failures.push(Failure::new(
                            "diagnostic-off-culprit",
                            &fault,
                            json!({"layout": name, "text": r.text, "rule": fault, "culprit_bytes": [a, b], "culprit_text": &r.text[a..b],
                                   "diagnostic": format!("{:?} {}", e.0, e.1.to_string().trim())}),
                        ));
                    }
                }
            }
        }
    }
    // missing-token faults on valid programs
    if missing_tokens && fault == "none" {
        let spells: Vec<String> = p.toks.iter().map(|t| t.spell.clone()).collect();
        for i in 0..p.toks.len() {
            // which construct requires this token, and what must the diagnostic name?
            let t = &p.toks[i];
            let owner = p.nodes.iter().filter(|n| n.first <= i && i <= n.last && n.last != usize::MAX).filter(|n| {
                // the innermost node of which token i is a DIRECT terminal
                !p.nodes.iter().any(|m| m.parent.is_some() && std::ptr::eq(*n, &p.nodes[m.parent.unwrap()]) && m.first <= i && i <= m.last && m.last != usize::MAX)
            }).last();
            let Some(owner) = owner else { continue };
            let want: Option<ParseErrorMessage> = match (owner.kind.as_str(), t.kind.as_str()) {
                ("TypeDec" | "VarDec" | "Assign" | "Call", "Semic") => Some(ParseErrorMessage::MissingTrailingSemic),
                ("Call" | "If" | "While" | "ProcDec" | "Bracketed", "RParen") => Some(ParseErrorMessage::MissingClosing(')')),
                ("If" | "While" | "ProcDec", "LParen") => Some(ParseErrorMessage::MissingOpening('(')),
                ("ArrayType" | "ArrayAccess", "RBracket") => Some(ParseErrorMessage::MissingClosing(']')),
                ("Block" | "ProcDec", "RCurly") => Some(ParseErrorMessage::MissingClosing('}')),
                ("ProcDec", "LCurly") => Some(ParseErrorMessage::MissingOpening('{')),
                ("ArrayType", "Of") => Some(ParseErrorMessage::ExpectedToken("of".into())),
                ("TypeDec", "Eq") => Some(ParseErrorMessage::ExpectedToken("=".into())),
                ("VarDec" | "Param", "Colon") => Some(ParseErrorMessage::ExpectedToken(":".into())),
                _ => None,
            };
            let Some(want) = want else { continue };
            // if the next token is of the same kind, deleting this one leaves a program that lacks nothing
            // here (`; ;`, `( (`, `{ {`): not a missing-token fault
            if i + 1 < p.toks.len() && p.toks[i + 1].kind == t.kind {
                continue;
            }
            // inside an expression a later closer of the same kind would take the place of the deleted one and
            // regroup the expression (a different program, not a missing token): only delete where that cannot happen
            let next = p.toks.get(i + 1).map(|x| x.kind.as_str()).unwrap_or("");
            if owner.kind == "ArrayAccess" && !matches!(next, "Assign" | "Semic" | "Comma" | "RParen") {
                continue;
            }
            if owner.kind == "Bracketed" && !matches!(next, "Semic" | "Comma" | "RBracket") {
                continue;
            }
            let mut sp = spells.clone();
            sp.remove(i);
            let text = sp.join(" ");
            o.evals += 1;
            o.counters.push(("missing_token_faults".into(), 1));
            let site = format!("missing {} in {}", t.spell, owner.kind);
            let errs = match analyze(&text) {
                Ok(e) => e,
                Err(m) => {
                    o.failures.push(Failure::new("panic", &site, json!({"text": text, "panic": m})));
                    continue;
                }
            };
            let named = errs.iter().any(|e| e.1 == ErrorMessage::ParseErrorMessage(want.clone()));
            if !named {
                o.failures.push(Failure::new("missing-token-not-named", &site, json!({"text": text, "expected": format!("{:?}", want), "diagnostics": errs_json(&errs)})));
                continue;
            }
            // no diagnostic of a rule the program does not violate: a missing token is a syntax fault, further
            // SYNTAX diagnostics it entails (e.g. an `else` left without its `if`) are the same fault
            if let Some(e) = errs.iter().find(|e| !matches!(e.1, ErrorMessage::ParseErrorMessage(_))) {
                o.failures.push(Failure::new(
                    "unviolated-rule-reported",
                    &format!("{site}->{}", rule_name(e)),
                    json!({"text": text, "expected": format!("{:?}", want), "diagnostics": errs_json(&errs)}),
                ));
                continue;
            }
            // on the global declaration that lacks the token
            let decl = p.nodes.iter().filter(|n| n.depth == 1 && n.first <= i && i <= n.last).last();
            if let Some(d) = decl {
                let start: usize = sp[..d.first].iter().map(|s| s.len() + 1).sum();
                let ntoks_after = d.last - d.first; // one token fewer
                let end: usize = start + sp[d.first..d.first + ntoks_after].iter().map(|s| s.len() + 1).sum::<usize>();
                if let Some(e) = errs.iter().find(|e| e.0.start + 1 < start || e.0.end > end) {
                    o.failures.push(Failure::new("diagnostic-off-culprit", &site, json!({"text": text, "declaration_bytes": [start, end], "diagnostic": format!("{:?} {}", e.0, e.1.to_string().trim())})));
                }
            }
        }
    }
    o
}
