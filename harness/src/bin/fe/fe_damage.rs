//! C05: single-token damage of one global declaration of a valid program.
//! SplSession.Damage(kind, i, tok): delete token i, insert `tok` before token i,
//! or replace token i by `tok`, for every token except the declaration keywords
//! `proc`/`type` and every `tok` of the SPL token alphabet except those.
//!
//! Predicted: the sub-trees of every UNDAMAGED declaration are what they were
//! (ranges shifted for declarations behind the damage); every syntax
//! diagnostic lies in the damaged region = from the first token of the damaged
//! declaration to just before the first token of the next one; every
//! undamaged declaration keeps a symbol-table entry of its kind.

use serde_json::{json, Value};
use spl_frontend::error::ErrorMessage;
use spl_frontend::table::{GlobalEntry, SymbolTable};
use spl_frontend::{lexer, parser, AnalyzedSource, ErrorContainer};
use std::panic::AssertUnwindSafe;
use vharness::prog::*;
use vharness::*;

use crate::fe_grammar::{pnodes_json, project, PNode};

/// the SPL token alphabet (one spelling per kind; identifiers: a declared-looking name, `int`, a fresh name)
pub const ALPHABET: &[&str] = &[
    "(", ")", "[", "]", "{", "}", "=", "#", "<", "<=", ">", ">=", ":=", ":", ",", ";", "+", "-", "*", "/", "if", "else", "while",
    "array", "of", "ref", "var", "x", "int", "zz", "1", "0x1F", "'a'", "$",
];
/// further spellings used as replacement/insertion tokens by the edit enumerations of C01/C02 (not part of the
/// SplSession alphabet that is count-bound to TLC): literals outside the core of SPL
pub const EXTRA_TOKENS: &[&str] = &["//", "'\u{142}'", "'\u{20AC}'", "'\u{1F600}'", "99999999999", "0xFFFFFFFFF"];

fn render_tokens(spells: &[String], doc_before: &[usize]) -> (String, Vec<usize>, Vec<usize>) {
    // canonical layout: one blank between tokens; a doc comment line in front of the tokens listed in
    // `doc_before` (the first tokens of the global declarations); returns text, the start byte of each
    // token and the start byte of what belongs to it (its doc comment, if any)
    let mut text = String::new();
    let mut starts = Vec::new();
    let mut owned = Vec::new();
    for (i, s) in spells.iter().enumerate() {
        if i > 0 {
            text.push(' ');
        }
        owned.push(text.len());
        if let Some(k) = doc_before.iter().position(|x| *x == i) {
            text.push_str(&format!("// doc {k}\n"));
        }
        starts.push(text.len());
        text.push_str(s);
    }
    (text, starts, owned)
}

/// split a projected node list into top-level declarations: (start index in list, end index, node)
fn decls(nodes: &[PNode]) -> Vec<(usize, usize)> {
    let mut out = Vec::new();
    let idx: Vec<usize> = nodes.iter().enumerate().filter(|(_, n)| n.depth == 1).map(|(i, _)| i).collect();
    for (k, &i) in idx.iter().enumerate() {
        let e = if k + 1 < idx.len() { idx[k + 1] } else { nodes.len() };
        out.push((i, e));
    }
    out
}

fn same_subtree(a: &[PNode], b: &[PNode], shift: isize) -> bool {
    a.len() == b.len()
        && a.iter().zip(b).all(|(x, y)| {
            x.kind == y.kind && x.attr == y.attr && x.depth == y.depth && x.start as isize + shift == y.start as isize && x.end as isize + shift == y.end as isize
        })
}

pub fn damage_case(case: &Value, stride: usize) -> Outcome {
    let mut o = Outcome::default();
    let p = parse_out(&case["out"]);
    // top-level declarations of the specified tree
    let tops: Vec<&Node> = p.nodes.iter().filter(|n| n.depth == 1).collect();
    if tops.len() < 2 {
        return o;
    }
    o.nontrivial = true;
    // twice: tokens only, and with a doc comment line in front of every global declaration (the comment
    // belongs to the declaration behind it: a damaged neighbour must neither swallow it nor carry a
    // diagnostic on it)
    for doc in [false, true] {
        damage_variant(&p, &tops, stride, doc, &mut o);
    }
    o
}

fn damage_variant(p: &Prog, tops: &[&Node], stride: usize, doc: bool, o: &mut Outcome) {
    let site_of = |kind: &str| if doc { format!("{kind}+doc") } else { kind.to_string() };
    let doc0: Vec<usize> = if doc { tops.iter().map(|n| n.first).collect() } else { Vec::new() };
    let spells: Vec<String> = p.toks.iter().map(|t| t.spell.clone()).collect();
    let (text0, _, _) = render_tokens(&spells, &doc0);
    let base = match guard(AssertUnwindSafe(|| project(&parser::parse(&lexer::lex(&text0))))) {
        Ok(b) => b,
        Err(m) => {
            o.failures.push(Failure::new("panic", "", json!({"text": text0, "panic": m})));
            return;
        }
    };
    let base_decls = decls(&base);
    if base_decls.len() != tops.len() {
        o.failures.push(Failure::new("base-tree", "", json!({"text": text0, "why": "undamaged program not parsed into its declarations (C04)"})));
        return;
    }
    let names: Vec<(String, String)> = tops.iter().map(|n| (n.kind.clone(), n.attr.clone())).collect();
    let unique_names = {
        let mut v: Vec<&String> = names.iter().map(|x| &x.1).collect();
        v.sort();
        v.dedup();
        v.len() == names.len()
    };
    let mut counter = 0usize;
    for (d, top) in tops.iter().enumerate() {
        for i in top.first..=top.last {
            let is_decl_kw = matches!(p.toks[i].kind.as_str(), "Proc" | "Type");
            // (kind, replacement)
            let mut damages: Vec<(&str, Option<&str>)> = Vec::new();
            if !is_decl_kw {
                damages.push(("delete", None));
                for a in ALPHABET {
                    damages.push(("replace", Some(a)));
                }
            }
            for a in ALPHABET {
                damages.push(("insert", Some(a)));
            }
            for (kind, tok) in damages {
                counter += 1;
                if stride > 1 && counter % stride != 0 {
                    continue;
                }
                if kind == "replace" && tok == Some(p.toks[i].spell.as_str()) {
                    continue;
                }
                let mut sp = spells.clone();
                let delta: isize = match kind {
                    "delete" => {
                        sp.remove(i);
                        -1
                    }
                    "replace" => {
                        sp[i] = tok.unwrap().to_string();
                        0
                    }
                    _ => {
                        sp.insert(i, tok.unwrap().to_string());
                        1
                    }
                };
                let docd: Vec<usize> = doc0.iter().enumerate().map(|(k, f)| if k > d { (*f as isize + delta) as usize } else { *f }).collect();
                let (text, starts, owned) = render_tokens(&sp, &docd);
                o.evals += 1;
                let desc = || json!({"text": text, "original": text0, "damage": kind, "at_token": i, "token": tok, "declaration": d});
                let res = guard(AssertUnwindSafe(|| {
                    let toks = lexer::lex(&text);
                    let ast = parser::parse(&toks);
                    let src = AnalyzedSource::new(text.clone());
                    (project(&ast), src)
                }));
                let (got, src) = match res {
                    Ok(x) => x,
                    Err(m) => {
                        o.failures.push(Failure::new("panic", &site_of(kind), json!({"case": desc(), "panic": m})));
                        continue;
                    }
                };
                // undamaged declarations keep their sub-trees
                let gd = decls(&got);
                let after = tops.len() - d - 1;
                let mut ok = gd.len() >= d + after;
                if ok {
                    for k in 0..d {
                        ok &= same_subtree(&base[base_decls[k].0..base_decls[k].1], &got[gd[k].0..gd[k].1], 0);
                    }
                    for k in 0..after {
                        let bk = base_decls[tops.len() - 1 - k];
                        let gk = gd[gd.len() - 1 - k];
                        ok &= same_subtree(&base[bk.0..bk.1], &got[gk.0..gk.1], delta);
                    }
                }
                if !ok {
                    o.failures.push(Failure::new(
                        "undamaged-declaration-changed",
                        &site_of(kind),
                        json!({"case": desc(), "got": pnodes_json(&got), "before": pnodes_json(&base)}),
                    ));
                    continue;
                }
                // syntax diagnostics inside the damaged region (byte ranges)
                let region_first_tok = top.first; // same index in the damaged token list (damage is at i >= first)
                let region_start = owned.get(region_first_tok).cloned().unwrap_or(text.len());
                let next_first = (top.last as isize + 1 + delta) as usize;
                let region_end = if d + 1 < tops.len() { owned.get(next_first).cloned().unwrap_or(text.len()) } else { text.len() };
                let mut nsyn = 0;
                for e in src.errors() {
                    if matches!(e.1, ErrorMessage::ParseErrorMessage(_) | ErrorMessage::LexErrorMessage(_)) {
                        nsyn += 1;
                        if e.0.start < region_start || e.0.end > region_end {
                            o.failures.push(Failure::new(
                                "diagnostic-outside-damaged-declaration",
                                &site_of(kind),
                                json!({"case": desc(), "diagnostic": format!("{:?} {}", e.0, e.1), "region": [region_start, region_end]}),
                            ));
                            break;
                        }
                    }
                }
                if nsyn > 0 {
                    o.counters.push(("damages_with_syntax_diagnostics".into(), 1));
                }
                // undamaged declarations keep their table entries
                if unique_names && !matches!(tok, Some("x") | Some("int")) {
                    for (k, (nk, nm)) in names.iter().enumerate() {
                        if k == d {
                            continue;
                        }
                        // the damaged declaration may have been renamed to nm by the damage only through an identifier token
                        if sp.iter().filter(|s| *s == nm).count() > spells.iter().filter(|s| *s == nm).count() {
                            continue;
                        }
                        let entry = src.table.lookup(nm);
                        let kind_ok = match (nk.as_str(), entry) {
                            ("TypeDec", Some(GlobalEntry::Type(_))) | ("ProcDec", Some(GlobalEntry::Procedure(_))) => true,
                            _ => false,
                        };
                        if !kind_ok {
                            o.failures.push(Failure::new(
                                "table-entry-lost",
                                &site_of(kind),
                                json!({"case": desc(), "declaration_name": nm, "entry": format!("{:?}", entry.map(|_| "other kind"))}),
                            ));
                            break;
                        }
                    }
                }
                let _ = src.ast.errors();
            }
        }
    }
}
