use spl_frontend::*;
fn main() {
    let n: usize = std::env::args().nth(1).and_then(|s| s.parse().ok()).unwrap_or(400);
    let mut t = String::from("// \u{fc}\u{20ac}\u{1F600} doc\nproc main() { p1(); }\n");
    for i in 0..n {
        t.push_str(&format!("proc q{i}(a: int, ref b: int) {{ var c: int; c := a * (b + {i}); b := c - a; }}\n"));
    }
    let at = t.find("p1(").unwrap() + 1;
    let base = AnalyzedSource::new(t.clone());
    let mut nt = t.clone();
    nt.replace_range(at..at + 1, "11");
    let inc = base.update(vec![TextChange { range: at..at + 1, text: "11".into() }]);
    let fresh = AnalyzedSource::new(nt);
    println!("tokens eq {} ast eq {} table eq {} errors inc {:?} fresh {:?}", inc.tokens == fresh.tokens, inc.ast == fresh.ast, inc.table == fresh.table,
        inc.errors().iter().map(|e| e.to_string()).collect::<Vec<_>>(), fresh.errors().iter().map(|e| e.to_string()).collect::<Vec<_>>());
}
