//! mode `docsync` (C08): replay the change graph of MC_LspDocument into the
//! real server.  The cases are the DOC lines (text + position table
//! grid -> offset, computed by the specification); the harness enumerates the
//! same change set as `Changes(s)` in MC_LspDocument.tla (mirror; the number
//! of replayed transitions is compared with TLC's by the driver) and derives
//! the predicted text of each change by splicing at the SPECIFIED offsets.
//! Batches (several changes in one notification, each relative to its
//! predecessor) and full-text changes are composed from the same tables.
//!
//! Every change runs on a fresh document: didOpen, didChange, `$/verif/text`,
//! didClose; many of them are pipelined through one server process.

use serde_json::{json, Value};
use std::collections::HashMap;
use std::sync::Arc;
use std::time::Duration;
use vharness::lspclient::*;
use vharness::*;

type Table = HashMap<(u64, u64), usize>;

struct Doc {
    names: Vec<String>,
    nlines: u64,
    units: u64,
    table: Table,
}

fn conc(names: &[String]) -> String {
    names.iter().map(|s| concretise_char(s)).collect()
}

#[derive(Clone)]
struct Change {
    sl: u64,
    sc: u64,
    el: u64,
    ec: u64,
    ins: Vec<String>,
    full: bool,
}

fn change_json(c: &Change) -> Value {
    if c.full {
        json!({"text": conc(&c.ins)})
    } else {
        json!({"range": {"start": {"line": c.sl, "character": c.sc}, "end": {"line": c.el, "character": c.ec}}, "text": conc(&c.ins)})
    }
}

fn apply(d: &Doc, c: &Change) -> Vec<String> {
    if c.full {
        return c.ins.clone();
    }
    let a = d.table[&(c.sl, c.sc)];
    let b = d.table[&(c.el, c.ec)];
    let b = b.max(a);
    let mut v = d.names[..a].to_vec();
    v.extend(c.ins.iter().cloned());
    v.extend(d.names[b..].iter().cloned());
    v
}

fn ins_strings(alpha: &[String], max_ins: usize) -> Vec<Vec<String>> {
    let mut all: Vec<Vec<String>> = vec![vec![]];
    let mut layer: Vec<Vec<String>> = vec![vec![]];
    for _ in 0..max_ins {
        let mut next = Vec::new();
        for s in &layer {
            for c in alpha {
                let mut t = s.clone();
                t.push(c.clone());
                next.push(t);
            }
        }
        all.extend(next.iter().cloned());
        layer = next;
    }
    all
}

/// the mirror of Changes(s)
fn changes_of(d: &Doc, inss: &[Vec<String>], max_len: usize) -> Vec<Change> {
    let mut grid: Vec<(u64, u64)> = d.table.keys().cloned().collect();
    grid.sort();
    let mut out = Vec::new();
    for &(sl, sc) in &grid {
        for &(el, ec) in &grid {
            if !(sl < el || (sl == el && sc <= ec)) {
                continue;
            }
            let (a, b) = (d.table[&(sl, sc)], d.table[&(el, ec)]);
            if a > b {
                continue;
            }
            for ins in inss {
                if d.names.len() - (b - a) + ins.len() > max_len {
                    continue;
                }
                out.push(Change { sl, sc, el, ec, ins: ins.clone(), full: false });
            }
        }
    }
    out
}

struct Job {
    text: Vec<String>,
    changes: Vec<Change>,      // one notification
    expected: Vec<String>,
}

fn run_jobs(exe: &str, jobs: &[Job], bound: Duration) -> (Vec<Failure>, usize) {
    // one server process, everything pipelined in one burst
    let mut msgs: Vec<Value> = vec![
        json!({"jsonrpc": "2.0", "id": 0, "method": "initialize", "params": {"capabilities": {}}}),
        json!({"jsonrpc": "2.0", "method": "initialized", "params": {}}),
    ];
    for (k, j) in jobs.iter().enumerate() {
        let uri = format!("file:///doc{k}.spl");
        msgs.push(json!({"jsonrpc": "2.0", "method": "textDocument/didOpen",
                         "params": {"textDocument": {"uri": uri, "languageId": "spl", "version": 1, "text": conc(&j.text)}}}));
        msgs.push(json!({"jsonrpc": "2.0", "method": "textDocument/didChange",
                         "params": {"textDocument": {"uri": uri, "version": 2},
                                    "contentChanges": j.changes.iter().map(change_json).collect::<Vec<_>>()}}));
        msgs.push(json!({"jsonrpc": "2.0", "id": k + 1, "method": "$/verif/text", "params": {"uri": uri}}));
        msgs.push(json!({"jsonrpc": "2.0", "method": "textDocument/didClose", "params": {"textDocument": {"uri": uri}}}));
    }
    msgs.push(json!({"jsonrpc": "2.0", "id": jobs.len() + 1, "method": "shutdown", "params": null}));
    msgs.push(json!({"jsonrpc": "2.0", "method": "exit", "params": null}));
    let bytes: Vec<u8> = msgs.iter().flat_map(frame).collect();
    let r = run_session(exe, &[bytes], None, bound, None);
    let mut fails = Vec::new();
    if let Some(e) = &r.frame_error {
        fails.push(Failure::new("frame-malformed", "", json!({"why": e})));
    }
    if r.timed_out {
        fails.push(Failure::new("hang", "", json!({})));
    }
    let mut by_id: HashMap<u64, &Value> = HashMap::new();
    for f in &r.frames {
        if f.get("method").is_none() {
            if let Some(i) = f["id"].as_u64() {
                by_id.insert(i, f);
            }
        }
    }
    for (k, j) in jobs.iter().enumerate() {
        let want = conc(&j.expected);
        let desc = || {
            json!({"text": conc(&j.text), "text_names": j.text, "changes": j.changes.iter().map(change_json).collect::<Vec<_>>(),
                   "expected": want})
        };
        match by_id.get(&((k + 1) as u64)) {
            None => {
                fails.push(Failure::new("no-answer", "", json!({"job": desc(), "exit": r.exit})));
                break; // the server is gone; later jobs say nothing new
            }
            Some(f) => {
                if f["result"].as_str() != Some(want.as_str()) {
                    let site = classify(j);
                    fails.push(Failure::new("text-differs", &site, json!({"job": desc(), "got": f.get("result"), "error": f.get("error")})));
                }
            }
        }
    }
    (fails, jobs.len())
}

/// coarse class of a failing job (for reading the report; not used for suppression)
fn classify(j: &Job) -> String {
    let t = &j.text;
    let mut tags = Vec::new();
    if j.changes.iter().any(|c| c.full) {
        tags.push("full-text");
    }
    if j.changes.len() > 1 {
        tags.push("batch");
    }
    if t.iter().any(|c| c == "U4") {
        tags.push("astral");
    }
    if t.iter().any(|c| c == "\r") {
        tags.push("cr");
    }
    tags.join("+")
}

pub fn run(cases: Vec<(String, Value)>, max_fail: usize, opts: &HashMap<String, String>) -> Summary {
    let exe = opts["exe"].clone();
    let bound = Duration::from_millis(opts.get("bound_ms").and_then(|s| s.parse().ok()).unwrap_or(120000));
    let seed: u64 = opts.get("seed").and_then(|s| s.parse().ok()).unwrap_or(1);
    let nbatch: usize = opts.get("batches").and_then(|s| s.parse().ok()).unwrap_or(40);
    let meta = cases.iter().find(|(t, _)| t == "META").map(|(_, v)| v.clone()).unwrap_or_else(|| {
        eprintln!("docsync: META line missing");
        std::process::exit(2)
    });
    let max_len = meta["maxlen"].as_u64().unwrap() as usize;
    let max_ins = meta["maxins"].as_u64().unwrap() as usize;
    let alpha: Vec<String> = meta["insalpha"].as_array().unwrap().iter().map(|c| c.as_str().unwrap().to_string()).collect();
    let inss = Arc::new(ins_strings(&alpha, max_ins));
    let mut docs: HashMap<Vec<String>, Arc<Doc>> = HashMap::new();
    for (tag, c) in &cases {
        if tag != "DOC" {
            continue;
        }
        let names: Vec<String> = c["text"].as_array().unwrap().iter().map(|x| x.as_str().unwrap().to_string()).collect();
        let mut table = Table::new();
        for e in c["table"].as_array().unwrap() {
            table.insert((e["l"].as_u64().unwrap(), e["c"].as_u64().unwrap()), e["o"].as_u64().unwrap() as usize);
        }
        docs.insert(names.clone(), Arc::new(Doc { names, nlines: c["nlines"].as_u64().unwrap(), units: c["units"].as_u64().unwrap(), table }));
    }
    let docs = Arc::new(docs);
    let doc_cases: Vec<(String, Value)> = cases.into_iter().filter(|(t, _)| t == "DOC").collect();
    let d2 = docs.clone();
    run_cases(doc_cases, max_fail, move |_tag, case| {
        let mut out = Outcome::default();
        let names: Vec<String> = case["text"].as_array().unwrap().iter().map(|x| x.as_str().unwrap().to_string()).collect();
        let d = d2[&names].clone();
        // harness self-check: the independent position model (lspmodel.rs) agrees with the specification's
        // table on every grid position of this text (a disagreement is a tool error, not a violation)
        {
            let t = conc(&d.names);
            let mut boff = vec![0usize];
            for n in &d.names {
                boff.push(boff.last().unwrap() + concretise_char(n).len());
            }
            for (&(l, c), &o) in d.table.iter() {
                let got = vharness::lspmodel::offset_of(&t, vharness::lspmodel::Pos { line: l as u32, col: c as u32 });
                if got != boff[o] {
                    eprintln!("lspmodel disagrees with LspDocument.tla: text {:?} pos ({l},{c}) spec offset {} model {got}", t, boff[o]);
                    std::process::exit(2);
                }
            }
            let _ = (d.nlines, d.units);
        }
        let chs = changes_of(&d, &inss, max_len);
        out.counters.push(("transitions".into(), chs.len()));
        out.nontrivial = !names.is_empty();
        let mut jobs: Vec<Job> = chs
            .iter()
            .map(|c| Job { text: names.clone(), changes: vec![c.clone()], expected: apply(&d, c) })
            .collect();
        // batches: second (third) change relative to the result of its predecessor; full-text changes mixed in
        let mut rng = Rng::new(seed ^ fxhash(case.to_string().as_bytes()));
        if !chs.is_empty() {
            for _ in 0..nbatch {
                let mut cur = d.clone();
                let mut batch = Vec::new();
                let n = 2 + rng.below(2);
                for _ in 0..n {
                    let c = if rng.below(6) == 0 {
                        let ins = inss[rng.below(inss.len())].clone();
                        Change { sl: 0, sc: 0, el: 0, ec: 0, ins, full: true }
                    } else {
                        let cs = changes_of(&cur, &inss, max_len);
                        if cs.is_empty() {
                            break;
                        }
                        cs[rng.below(cs.len())].clone()
                    };
                    let next = apply(&cur, &c);
                    batch.push(c);
                    match d2.get(&next) {
                        Some(nd) => cur = nd.clone(),
                        None => break,
                    }
                }
                if batch.len() >= 2 || batch.iter().any(|c| c.full) {
                    let mut t = d.clone();
                    let mut ok = true;
                    for c in &batch {
                        let nx = apply(&t, c);
                        match d2.get(&nx) {
                            Some(nd) => t = nd.clone(),
                            None => {
                                ok = false;
                                break;
                            }
                        }
                    }
                    if ok {
                        out.counters.push(("batches".into(), 1));
                        jobs.push(Job { text: names.clone(), changes: batch, expected: t.names.clone() });
                    }
                }
            }
        }
        for chunk in jobs.chunks(400) {
            let (fails, n) = run_jobs(&exe, chunk, bound);
            out.evals += n;
            let stop = fails.iter().any(|f| f.what != "text-differs");
            out.failures.extend(fails);
            if stop {
                break;
            }
        }
        out
    })
}
