//! Binary-level replay: drives the real `lsp4spl` executable over stdio.
//! usage: srv <mode> <cases-file> <result.json> exe=<path> [key=value ...]

use std::collections::HashMap;
use vharness::*;

mod diag;
mod docsession;
mod docsync;
mod features;
mod format;
mod histsession;
mod script;
mod sweep;
mod trace;

fn main() {
    let args: Vec<String> = std::env::args().collect();
    if args.len() < 4 {
        eprintln!("usage: srv <mode> <cases> <result.json> exe=<path> [k=v ...]");
        std::process::exit(2);
    }
    let mode = args[1].clone();
    let opts: HashMap<String, String> = args[4..]
        .iter()
        .filter_map(|a| a.split_once('=').map(|(k, v)| (k.to_string(), v.to_string())))
        .collect();
    if !opts.contains_key("exe") {
        eprintln!("exe=<path of lsp4spl> required");
        std::process::exit(2);
    }
    let cases = read_cases(&args[2]);
    let stride: usize = opts.get("stride").and_then(|s| s.parse().ok()).unwrap_or(1).max(1);
    let offset: usize = opts.get("offset").and_then(|s| s.parse().ok()).unwrap_or(0);
    let cases: Vec<_> = cases.into_iter().enumerate().filter(|(i, c)| c.0 == "META" || i % stride == offset % stride).map(|(_, c)| c).collect();
    if cases.is_empty() {
        eprintln!("no cases in {}", args[2]);
        std::process::exit(2);
    }
    let max_fail: usize = opts.get("max_fail").and_then(|s| s.parse().ok()).unwrap_or(200);
    let summary = match mode.as_str() {
        "script" => script::run(cases, max_fail, &opts),
        "docsync" => docsync::run(cases, max_fail, &opts),
        "diag" => diag::run(cases, max_fail, &opts),
        "format" => format::run(cases, max_fail, &opts),
        "sweep" => sweep::run(cases, max_fail, &opts),
        "histsession" => histsession::run(cases, max_fail, &opts),
        "features" => features::run(cases, max_fail, &opts),
        "docsession" => docsession::run_sessions(cases, max_fail, &opts),
        "roundtrip" => docsession::run_roundtrip(cases, max_fail, &opts),
        "trace" => trace::run(cases, opts.get("trace_out").map(|s| s.as_str()).unwrap_or("/verif/out/trace.ndjson"), &opts),
        _ => {
            eprintln!("unknown mode {mode}");
            std::process::exit(2);
        }
    };
    write_summary(&args[3], &format!("srv:{mode}"), &summary);
    println!(
        "srv {}: cases={} evals={} nontrivial={} failures={}",
        mode, summary.cases, summary.evals, summary.nontrivial, summary.nfail
    );
}
