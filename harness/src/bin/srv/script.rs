//! mode `script`: replay client scripts generated from LspProtocol/LspServer
//! (MC_LspScripts) into the real binary and compare every observable with the
//! sequential semantics: responses (order, ids, outcome, content), per-URI
//! diagnostics, exit status, promptness after end of input, framing of every
//! emitted frame.
//!
//! options: exe=, verif=0|1 (binary has `$/verif/text`), chunk=msg|one|bytes<N>|split2|rand,
//!          cuts=0|1 (byte-prefix cuts for scripts of <= 3 messages), bound_ms=, trace_dir=

use serde_json::{json, Value};
use std::collections::HashMap;
use std::sync::Arc;
use std::time::Duration;
use vharness::lspclient::*;
use vharness::*;

pub struct Opts {
    pub exe: String,
    pub verif: bool,
    pub chunk: String,
    pub cuts: usize,
    pub bound: Duration,
    pub seed: u64,
    pub trace_dir: Option<String>,
}

/// Concrete text of abstract content v (digits): a program whose only
/// diagnostic names the content, with a non-ASCII first line.
pub static BIG: std::sync::atomic::AtomicBool = std::sync::atomic::AtomicBool::new(false);

pub fn text_of(v: u64) -> String {
    let mut t = format!("// \u{fc}\u{20ac}\u{1F600} doc\nproc main() {{ p{}(); }}\n", v);
    if BIG.load(std::sync::atomic::Ordering::Relaxed) {
        // a long (valid) tail makes every analysis slow enough for the reader to run ahead of the broker
        for i in 0..400 {
            t.push_str(&format!("proc q{i}(a: int, ref b: int) {{ var c: int; c := a * (b + {i}); b := c - a; }}\n"));
        }
    }
    t
}

pub struct Concrete {
    pub msgs: Vec<Value>,
    pub ids: Vec<Option<Value>>, // id per message (requests only)
}

/// Concretise a script.  Request ids are script positions (1-based); "sunk" uses a string id.
pub fn concretise_script(script: &[Value], diagcap: bool, startmain: bool, verif: bool) -> Concrete {
    let mut msgs = Vec::new();
    let mut ids = Vec::new();
    let mut content: HashMap<String, Option<u64>> = HashMap::new();
    let req = |id: Value, method: &str, params: Value| json!({"jsonrpc": "2.0", "id": id, "method": method, "params": params});
    let note = |method: &str, params: Value| json!({"jsonrpc": "2.0", "method": method, "params": params});
    let init_params = |diag: bool| {
        if diag {
            json!({"processId": null, "rootUri": null, "capabilities": {"textDocument": {"publishDiagnostics": {"relatedInformation": false}}}})
        } else {
            json!({"processId": null, "rootUri": null, "capabilities": {}})
        }
    };
    if startmain {
        // prologue outside the script: ids 1000001.. are not part of the predicted output
        msgs.push(req(json!(1000001), "initialize", init_params(diagcap)));
        ids.push(None);
        msgs.push(note("initialized", json!({})));
        ids.push(None);
    }
    for (i, m) in script.iter().enumerate() {
        let id = (i + 1) as u64;
        let t = m["t"].as_str().unwrap_or("");
        let u = m["u"].as_str().unwrap_or("").to_string();
        let v = m["v"].as_u64().unwrap_or(0);
        let (msg, idv) = match t {
            "init" => (req(json!(id), "initialize", init_params(diagcap)), Some(json!(id))),
            "inited" => (note("initialized", json!({})), None),
            "req" => {
                if verif {
                    (req(json!(id), "$/verif/text", json!({"uri": u})), Some(json!(id)))
                } else {
                    (
                        req(json!(id), "textDocument/hover", json!({"textDocument": {"uri": u}, "position": {"line": 1, "character": 16}})),
                        Some(json!(id)),
                    )
                }
            }
            "unk" => (req(json!(id), "spl/unknownRequest", json!({})), Some(json!(id))),
            "sunk" => {
                let sid = format!("s{id}");
                (req(json!(sid), "spl/unknownRequest", json!({})), Some(json!(sid)))
            }
            "open" => {
                content.insert(u.clone(), Some(v));
                (
                    note("textDocument/didOpen", json!({"textDocument": {"uri": u, "languageId": "spl", "version": 1, "text": text_of(v)}})),
                    None,
                )
            }
            "change" => {
                // content' = content + v: replace the number in the name.  The client computes the range
                // from ITS copy of the text (if the document is not open at the client this is a protocol
                // error which the server ignores).
                let cur = content.get(&u).cloned().flatten();
                let (col_end, new_digits) = match cur {
                    Some(c) => (15 + c.to_string().len() as u64, (c + v).to_string()),
                    None => (16, v.to_string()),
                };
                if let Some(c) = cur {
                    content.insert(u.clone(), Some(c + v));
                }
                (
                    note(
                        "textDocument/didChange",
                        json!({"textDocument": {"uri": u, "version": 2},
                               "contentChanges": [{"range": {"start": {"line": 1, "character": 15}, "end": {"line": 1, "character": col_end}}, "text": new_digits}]}),
                    ),
                    None,
                )
            }
            "close" => {
                content.insert(u.clone(), None);
                (note("textDocument/didClose", json!({"textDocument": {"uri": u}})), None)
            }
            "unote" => (note("spl/unknownNotification", json!({"x": 1})), None),
            "shutdown" => (req(json!(id), "shutdown", Value::Null), Some(json!(id))),
            "exit" => (note("exit", Value::Null), None),
            other => {
                eprintln!("unknown message type {other}");
                std::process::exit(2);
            }
        };
        msgs.push(msg);
        ids.push(idv);
    }
    Concrete { msgs, ids }
}

fn code_of(res: &str) -> Vec<i64> {
    match res {
        "SNI" => vec![-32002],
        "IR" => vec![-32600],
        "MNF" => vec![-32601],
        "SNI|IR" => vec![-32002, -32600],
        _ => vec![],
    }
}

/// Compare the frames of one run with the predicted outputs.
pub fn judge(frames: &[Value], exp: &[Value], verif: bool, startmain: bool) -> Vec<Failure> {
    let mut fails = Vec::new();
    let mut resps: Vec<&Value> = frames.iter().filter(|f| f.get("method").is_none()).collect();
    if startmain {
        // drop the prologue's response
        if let Some(pos) = resps.iter().position(|r| r.get("id") == Some(&json!(1000001))) {
            if pos != 0 || resps[pos].get("result").is_none() {
                fails.push(Failure::new("prologue", "", json!({"why": "initialize prologue not answered first with a result"})));
            }
            resps.remove(pos);
        } else {
            fails.push(Failure::new("prologue", "", json!({"why": "initialize prologue unanswered"})));
        }
    }
    let exp_resps: Vec<&Value> = exp.iter().filter(|o| o["k"] == "resp").collect();
    // responses: exactly the expected ones, in order
    let mut i = 0usize;
    for e in &exp_resps {
        let eid = e["id"].as_u64().unwrap();
        let string_id = e.get("sid").and_then(|s| s.as_bool()).unwrap_or(false);
        let want_id = if string_id { json!(format!("s{eid}")) } else { json!(eid) };
        let site = if string_id { "string-id" } else { "" };
        let Some(r) = resps.get(i) else {
            fails.push(Failure::new("response-missing", site, json!({"expected": e, "got_responses": resps.len()})));
            if string_id {
                continue;
            }
            break;
        };
        if r.get("id") != Some(&want_id) {
            if string_id {
                // the response for the string-id request is missing; keep matching the others
                fails.push(Failure::new("response-missing", site, json!({"expected": e})));
                continue;
            }
            fails.push(Failure::new("response-order", "", json!({"expected_id": want_id, "got": r})));
            break;
        }
        i += 1;
        if r.get("jsonrpc") != Some(&json!("2.0")) {
            fails.push(Failure::new("response-shape", "", json!({"got": r, "why": "jsonrpc member"})));
        }
        let res = e["res"].as_str().unwrap_or("");
        let has_result = r.get("result").is_some();
        let has_error = r.get("error").is_some();
        if has_result == has_error {
            fails.push(Failure::new("response-shape", "", json!({"got": r, "why": "exactly one of result/error required"})));
            continue;
        }
        if res == "ok" {
            if !has_result {
                fails.push(Failure::new("response-outcome", "", json!({"expected": e, "got": r})));
            } else if verif {
                // content check (read-your-writes) for `$/verif/text`
                let v = e["v"].as_u64().unwrap_or(0);
                let is_textreq = e.get("textreq").and_then(|b| b.as_bool()).unwrap_or(false);
                if is_textreq {
                    let want = if v == 0 { Value::Null } else { json!(text_of(v)) };
                    if r["result"] != want {
                        fails.push(Failure::new("response-content", "", json!({"expected_text": want, "got": r["result"], "id": eid})));
                    }
                }
            }
        } else {
            let codes = code_of(res);
            let got = r["error"]["code"].as_i64();
            if !has_error || got.map(|c| !codes.contains(&c)).unwrap_or(true) {
                fails.push(Failure::new("response-outcome", "", json!({"expected": e, "got": r})));
            }
        }
    }
    if i < resps.len() {
        fails.push(Failure::new("response-unexpected", "", json!({"extra": resps[i..].iter().take(3).collect::<Vec<_>>()})));
    }
    // diagnostics per URI
    let mut exp_d: HashMap<String, Vec<u64>> = HashMap::new();
    for o in exp.iter().filter(|o| o["k"] == "diag") {
        exp_d.entry(o["u"].as_str().unwrap().to_string()).or_default().push(o["v"].as_u64().unwrap());
    }
    let mut got_d: HashMap<String, Vec<&Value>> = HashMap::new();
    for f in frames.iter().filter(|f| f.get("method") == Some(&json!("textDocument/publishDiagnostics"))) {
        got_d.entry(f["params"]["uri"].as_str().unwrap_or("?").to_string()).or_default().push(f);
    }
    let norm = |u: &str| u.replace("file:///", "file:/").replace("untitled:///", "untitled:/");
    let mut got_n: HashMap<String, Vec<&Value>> = HashMap::new();
    for (k, v) in got_d {
        got_n.entry(norm(&k)).or_default().extend(v);
    }
    let mut uris: Vec<String> = exp_d.keys().cloned().chain(got_n.keys().cloned()).collect();
    uris.sort();
    uris.dedup();
    for u in uris {
        let e = exp_d.get(&u).cloned().unwrap_or_default();
        let g = got_n.get(&u).cloned().unwrap_or_default();
        if e.len() != g.len() {
            fails.push(Failure::new(
                "diagnostics-count",
                "",
                json!({"uri": u, "expected_versions": e, "got": g.len(), "first_got": g.first()}),
            ));
            continue;
        }
        for (ev, gv) in e.iter().zip(g.iter()) {
            let name = format!("`p{}`", ev);
            let ds = gv["params"]["diagnostics"].as_array().cloned().unwrap_or_default();
            let ok = ds.len() == 1 && ds[0]["message"].as_str().map(|m| m.contains(&name)).unwrap_or(false);
            if !ok {
                fails.push(Failure::new("diagnostics-content", "", json!({"uri": u, "expected_name": name, "got": gv["params"]["diagnostics"]})));
            }
        }
    }
    fails
}

fn chunkings(bytes_per_msg: &[Vec<u8>], mode: &str, rng: &mut Rng) -> Vec<Vec<Vec<u8>>> {
    let all: Vec<u8> = bytes_per_msg.concat();
    match mode {
        "msg" => vec![bytes_per_msg.to_vec()],
        "one" => vec![vec![all]],
        "split2" => (1..all.len()).map(|k| vec![all[..k].to_vec(), all[k..].to_vec()]).collect(),
        "rand" => {
            let mut outs = Vec::new();
            for _ in 0..8 {
                let mut cuts: Vec<usize> = (0..(1 + rng.below(12))).map(|_| rng.below(all.len().max(1))).collect();
                cuts.push(0);
                cuts.push(all.len());
                cuts.sort();
                cuts.dedup();
                outs.push(cuts.windows(2).map(|w| all[w[0]..w[1]].to_vec()).collect());
            }
            outs
        }
        m if m.starts_with("bytes") => {
            let n: usize = m[5..].parse().unwrap_or(1).max(1);
            vec![all.chunks(n).map(|c| c.to_vec()).collect()]
        }
        _ => vec![bytes_per_msg.to_vec()],
    }
}

pub fn parse_opts(opts: &HashMap<String, String>) -> Opts {
    if opts.get("big").map(|s| s == "1").unwrap_or(false) {
        BIG.store(true, std::sync::atomic::Ordering::Relaxed);
    }
    Opts {
        exe: opts["exe"].clone(),
        verif: opts.get("verif").map(|s| s == "1").unwrap_or(false),
        chunk: opts.get("chunk").cloned().unwrap_or_else(|| "msg".into()),
        cuts: opts.get("cuts").and_then(|s| s.parse().ok()).unwrap_or(0),
        bound: Duration::from_millis(opts.get("bound_ms").and_then(|s| s.parse().ok()).unwrap_or(15000)),
        seed: opts.get("seed").and_then(|s| s.parse().ok()).unwrap_or(1),
        trace_dir: opts.get("trace_dir").cloned(),
    }
}

/// annotate expected responses with what the harness needs to know about the request
fn annotate(script: &[Value], exp: &[Value]) -> Vec<Value> {
    exp.iter()
        .map(|o| {
            let mut o = o.clone();
            if o["k"] == "resp" {
                let id = o["id"].as_u64().unwrap() as usize;
                let t = script[id - 1]["t"].as_str().unwrap_or("");
                o["sid"] = json!(t == "sunk");
                o["textreq"] = json!(t == "req");
            }
            o
        })
        .collect()
}

pub fn run(cases: Vec<(String, Value)>, max_fail: usize, opts: &HashMap<String, String>) -> Summary {
    let o = Arc::new(parse_opts(opts));
    run_cases(cases, max_fail, move |_tag, case| {
        let mut out = Outcome::default();
        let script = case["script"].as_array().cloned().unwrap_or_default();
        let exp = annotate(&script, &case["out"].as_array().cloned().unwrap_or_default());
        let diagcap = case["diagcap"].as_bool().unwrap_or(true);
        let startmain = case["startmain"].as_bool().unwrap_or(false);
        let exit = case["exit"].as_u64().unwrap_or(0);
        let conc = concretise_script(&script, diagcap, startmain, o.verif);
        let per_msg: Vec<Vec<u8>> = conc.msgs.iter().map(frame).collect();
        out.nontrivial = script.len() >= 2;
        let mut rng = Rng::new(o.seed ^ fxhash(case.to_string().as_bytes()));
        let mut baseline: Option<Vec<Value>> = None;
        for (ci, writes) in chunkings(&per_msg, &o.chunk, &mut rng).into_iter().enumerate() {
            // without a pause the pipe coalesces consecutive writes and the server never sees the segmentation
            let delay = if o.chunk == "rand" && ci % 2 == 1 {
                Some(Duration::from_micros(300))
            } else if o.chunk == "split2" {
                Some(Duration::from_micros(1500))
            } else if o.chunk.starts_with("bytes") {
                Some(Duration::from_micros(150))
            } else {
                None
            };
            let r = run_session(&o.exe, &writes, delay, o.bound, None);
            out.evals += 1;
            let ctx = json!({"chunking": o.chunk, "variant": ci, "nwrites": writes.len(),
                             "first_write_len": writes.first().map(|w| w.len())});
            if let Some(e) = &r.frame_error {
                out.failures.push(Failure::new("frame-malformed", "", json!({"why": e, "ctx": ctx})));
                continue;
            }
            if r.leftover > 0 {
                out.failures.push(Failure::new("frame-truncated", "", json!({"leftover_bytes": r.leftover, "ctx": ctx})));
            }
            if r.timed_out {
                out.failures.push(Failure::new("hang-after-eof", "", json!({"bound_ms": o.bound.as_millis() as u64, "ctx": ctx})));
                continue;
            }
            match exit {
                10 | 11 => {
                    let want = (exit - 10) as i32;
                    if r.exit != Some(want) {
                        out.failures.push(Failure::new("exit-status", "", json!({"expected": want, "got": r.exit, "ctx": ctx})));
                    }
                }
                _ => {
                    // end of input without `exit`: status unconstrained, but a crash (signal / panic code 101) is not an exit
                    if r.exit.is_none() || r.exit == Some(101) {
                        out.failures.push(Failure::new("crash", "", json!({"got": r.exit, "ctx": ctx})));
                    }
                }
            }
            for mut f in judge(&r.frames, &exp, o.verif, startmain) {
                f.detail["ctx"] = ctx.clone();
                out.failures.push(f);
            }
            // C19: every segmentation yields the same responses / per-URI diagnostics as the first one
            let streams = project_streams(&r.frames);
            match &baseline {
                None => baseline = Some(streams),
                Some(b) => {
                    if *b != streams {
                        out.failures.push(Failure::new("segmentation-dependent", "", json!({"ctx": ctx, "baseline": b, "got": streams})));
                    }
                }
            }
            if out.failures.len() > 5 {
                break;
            }
        }
        // byte-prefix cuts: the session's byte stream ends anywhere, then end of input
        if o.cuts > 0 && script.len() <= o.cuts {
            let all: Vec<u8> = per_msg.concat();
            let mut k = 1;
            while k < all.len() {
                let r = run_session(&o.exe, &[all[..k].to_vec()], None, o.bound, None);
                out.evals += 1;
                out.counters.push(("byte_cuts".into(), 1));
                if r.timed_out {
                    out.failures.push(Failure::new("hang-after-eof", "", json!({"cut_at_byte": k, "of": all.len()})));
                    break;
                }
                if let Some(e) = &r.frame_error {
                    out.failures.push(Failure::new("frame-malformed", "", json!({"why": e, "cut_at_byte": k})));
                    break;
                }
                // every complete frame before the cut must have had its effect: responses are a prefix
                let whole = per_msg.iter().scan(0usize, |acc, m| { *acc += m.len(); Some(*acc) }).filter(|e| *e <= k).count();
                let skip = if startmain { 2 } else { 0 };
                if whole >= skip {
                    let sub_script = &script[..(whole - skip).min(script.len())];
                    let sub_exp: Vec<Value> = exp.iter().filter(|o| {
                        if o["k"] == "resp" { (o["id"].as_u64().unwrap() as usize) <= sub_script.len() } else { false }
                    }).cloned().collect();
                    let frames: Vec<Value> = r.frames.iter().filter(|f| f.get("method").is_none()).cloned().collect();
                    // a stream that ends inside a frame is an error path: the property demands prompt
                    // termination there, not that already queued responses are still written - what IS
                    // written must be a prefix of the predicted responses
                    let mid_frame = !per_msg.iter().scan(0usize, |acc, m| { *acc += m.len(); Some(*acc) }).any(|e| e == k);
                    for mut f in judge(&frames, &sub_exp, o.verif, startmain && whole >= 1) {
                        if mid_frame && (f.what == "response-missing" || f.what == "prologue") {
                            continue;
                        }
                        f.detail["cut_at_byte"] = json!(k);
                        out.failures.push(f);
                    }
                }
                // sample cut points densely near frame boundaries and headers, sparsely inside bodies
                k += if all.len() > 400 && k % 64 > 8 { 7 } else { 1 };
            }
        }
        out
    })
}

/// responses in order + diagnostics per URI in order (what must not depend on segmentation)
pub fn project_streams(frames: &[Value]) -> Vec<Value> {
    let mut v: Vec<Value> = frames.iter().filter(|f| f.get("method").is_none()).cloned().collect();
    let mut uris: Vec<String> = frames
        .iter()
        .filter(|f| f.get("method").is_some())
        .map(|f| f["params"]["uri"].as_str().unwrap_or("").to_string())
        .collect();
    uris.sort();
    uris.dedup();
    for u in uris {
        for f in frames.iter().filter(|f| f.get("method").is_some() && f["params"]["uri"].as_str().unwrap_or("") == u) {
            v.push(f.clone());
        }
    }
    v
}
