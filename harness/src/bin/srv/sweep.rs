//! mode `sweep` (C02): every document of every generator (soup texts, lexeme chains with multi-byte
//! characters and CRLF, programs under layouts, single-token damages, faulty programs, edit histories,
//! deeply nested programs) is opened in the real server and all 13 requests are sent at every
//! position: first, middle and last column of every token, every gap, and positions outside the text.
//! Specified shape of the answer (LspServer.EveryRequestAnswered): exactly one response per request id,
//! in order, carrying `result` (any value) and no `error`; the process answers `shutdown` afterwards
//! and exits with status 0.

use serde_json::{json, Value};
use std::collections::HashMap;
use std::time::Duration;
use vharness::lspclient::*;
use vharness::lspmodel::{self, Pos};
use vharness::prog::*;
use vharness::*;

const POS_METHODS: &[&str] = &[
    "textDocument/declaration", "textDocument/definition", "textDocument/implementation", "textDocument/typeDefinition",
    "textDocument/references", "textDocument/hover", "textDocument/rename", "textDocument/prepareRename",
    "textDocument/completion", "textDocument/signatureHelp",
];

fn positions(text: &str, max: usize) -> Vec<Pos> {
    // byte offsets of interest: every character boundary of short texts, else token-ish boundaries
    let mut offs: Vec<usize> = Vec::new();
    let mut prev_blank = true;
    let idx: Vec<(usize, char)> = text.char_indices().collect();
    for (k, &(i, c)) in idx.iter().enumerate() {
        let blank = c.is_whitespace();
        let boundary = blank != prev_blank || !c.is_alphanumeric();
        if text.len() <= 40 || boundary || k + 1 == idx.len() {
            offs.push(i);
        }
        if !blank && (k + 1 == idx.len() || idx[k + 1].1.is_whitespace()) {
            offs.push(i); // last character of a word
        }
        prev_blank = blank;
    }
    offs.push(text.len());
    offs.sort();
    offs.dedup();
    if offs.len() > max {
        let st = offs.len() / max + 1;
        offs = offs.into_iter().step_by(st).collect();
    }
    let mut ps: Vec<Pos> = offs.into_iter().map(|o| lspmodel::pos_of(text, o)).collect();
    let end = lspmodel::end_pos(text);
    // outside the text: beyond the last line, beyond the end of a line, far away
    ps.push(Pos { line: end.line + 1, col: 0 });
    ps.push(Pos { line: end.line + 7, col: 3 });
    ps.push(Pos { line: 0, col: 10_000 });
    ps.push(Pos { line: end.line, col: end.col + 5 });
    ps.sort();
    ps.dedup();
    ps
}

fn requests_for(uri: &str, text: &str, next_id: &mut u64, max_pos: usize, msgs: &mut Vec<Value>, log: &mut Vec<(u64, String, Value)>) {
    let mut push = |method: &str, params: Value, msgs: &mut Vec<Value>, log: &mut Vec<(u64, String, Value)>| {
        *next_id += 1;
        msgs.push(json!({"jsonrpc": "2.0", "id": *next_id, "method": method, "params": params}));
        log.push((*next_id, method.to_string(), params));
    };
    for p in positions(text, max_pos) {
        let tdp = json!({"textDocument": {"uri": uri}, "position": {"line": p.line, "character": p.col}});
        for m in POS_METHODS {
            let mut params = tdp.clone();
            match *m {
                "textDocument/references" => params["context"] = json!({"includeDeclaration": true}),
                "textDocument/rename" => params["newName"] = json!("renamed"),
                _ => {}
            }
            push(m, params, msgs, log);
        }
    }
    push("textDocument/foldingRange", json!({"textDocument": {"uri": uri}}), msgs, log);
    push("textDocument/semanticTokens/full", json!({"textDocument": {"uri": uri}}), msgs, log);
    for (sp, ts) in [(true, 4), (false, 8), (true, 0)] {
        push("textDocument/formatting", json!({"textDocument": {"uri": uri}, "options": {"tabSize": ts, "insertSpaces": sp}}), msgs, log);
    }
}

/// documents (and edit steps) of a case
fn documents(case: &Value, damages: usize, seed: u64) -> Vec<(String, String, Vec<Vec<(std::ops::Range<usize>, String)>>)> {
    // (label, text, subsequent notifications as byte-range changes)
    let mut docs = Vec::new();
    if case.get("base").is_some() {
        let (base, steps) = realise_history(case);
        docs.push(("history".to_string(), base, steps.into_iter().map(|s| s.changes).collect()));
    } else if case.get("out").is_some() {
        let p = parse_out(&case["out"]);
        for l in ["canon", "cmtuni", "crlf"] {
            let r = render(&p, &layout(&p, l));
            docs.push((format!("program:{l}"), r.text, vec![]));
        }
        // single-token damages (sampled)
        let spells: Vec<String> = p.toks.iter().map(|t| t.spell.clone()).collect();
        let mut rng = Rng::new(seed ^ fxhash(spells.join(" ").as_bytes()));
        let alpha = ["(", ")", "[", "]", "{", "}", "=", ":=", ":", ",", ";", "-", "if", "else", "while", "array", "of", "ref", "var", "proc", "type", "x", "int", "1", "'", "//", "$", "\u{142}", "'\u{142}'", "'\u{20AC}'", "'\u{1F600}'", "'\u{1F600}", "0xFFFFFFFFF", "99999999999"];
        for _ in 0..damages {
            if spells.is_empty() {
                break;
            }
            let mut v = spells.clone();
            let i = rng.below(v.len() + 1);
            match rng.below(3) {
                0 if i < v.len() => {
                    v.remove(i);
                }
                1 if i < v.len() => v[i] = alpha[rng.below(alpha.len())].to_string(),
                _ => v.insert(i, alpha[rng.below(alpha.len())].to_string()),
            }
            docs.push(("damaged".to_string(), v.join(" "), vec![]));
        }
    } else if case.get("deep").is_some() {
        docs.push((format!("deep:{}", case["deep"].as_str().unwrap_or("")), case["doc"].as_str().unwrap_or("").to_string(), vec![]));
    } else {
        docs.push(("soup".to_string(), concretise(&case["text"]), vec![]));
    }
    docs
}

pub fn run(cases: Vec<(String, Value)>, max_fail: usize, opts: &HashMap<String, String>) -> Summary {
    let exe = opts["exe"].clone();
    let bound = Duration::from_millis(opts.get("bound_ms").and_then(|s| s.parse().ok()).unwrap_or(120000));
    let damages: usize = opts.get("damages").and_then(|s| s.parse().ok()).unwrap_or(3);
    let max_pos: usize = opts.get("maxpos").and_then(|s| s.parse().ok()).unwrap_or(60);
    let seed: u64 = opts.get("seed").and_then(|s| s.parse().ok()).unwrap_or(1);
    run_cases(cases, max_fail, move |_tag, case| {
        let mut out = Outcome::default();
        for (di, (label, text, steps)) in documents(case, damages, seed).into_iter().enumerate() {
            out.nontrivial = true;
            let uri = format!("file:///sweep{di}.spl");
            let mut msgs: Vec<Value> = vec![
                json!({"jsonrpc": "2.0", "id": 0, "method": "initialize", "params": {"capabilities": {"textDocument": {"publishDiagnostics": {}}}}}),
                json!({"jsonrpc": "2.0", "method": "initialized", "params": {}}),
                json!({"jsonrpc": "2.0", "method": "textDocument/didOpen", "params": {"textDocument": {"uri": uri, "languageId": "spl", "version": 1, "text": text}}}),
            ];
            let mut log: Vec<(u64, String, Value)> = Vec::new();
            let mut id = 0u64;
            let mut texts = vec![text.clone()];
            requests_for(&uri, &text, &mut id, max_pos, &mut msgs, &mut log);
            let mut cur = text.clone();
            for (k, changes) in steps.iter().enumerate() {
                let mut cc = Vec::new();
                for (r, ins) in changes {
                    let pj = |o: usize| { let p = lspmodel::pos_of(&cur, o); json!({"line": p.line, "character": p.col}) };
                    cc.push(json!({"range": {"start": pj(r.start), "end": pj(r.end)}, "text": ins}));
                    cur.replace_range(r.clone(), ins);
                }
                msgs.push(json!({"jsonrpc": "2.0", "method": "textDocument/didChange", "params": {"textDocument": {"uri": uri, "version": k + 2}, "contentChanges": cc}}));
                texts.push(cur.clone());
                requests_for(&uri, &cur, &mut id, max_pos / 3 + 4, &mut msgs, &mut log);
            }
            let shutdown_id = id + 1;
            msgs.push(json!({"jsonrpc": "2.0", "id": shutdown_id, "method": "shutdown", "params": null}));
            msgs.push(json!({"jsonrpc": "2.0", "method": "exit", "params": null}));
            let bytes: Vec<u8> = msgs.iter().flat_map(frame).collect();
            let r = run_session(&exe, &[bytes], None, bound, None);
            out.evals += log.len();
            out.counters.push(("documents".into(), 1));
            out.counters.push((format!("documents:{}", label.split(':').next().unwrap_or("")), 1));
            let ctx = |extra: Value| { let mut v = json!({"document": texts[0], "kind": label, "edits": steps.len()}); if let Some(m) = extra.as_object() { for (k, x) in m { v[k] = x.clone(); } } v };
            if let Some(e) = &r.frame_error {
                out.failures.push(Failure::new("frame-malformed", &label, ctx(json!({"why": e}))));
                continue;
            }
            if r.timed_out {
                out.failures.push(Failure::new("hang", &label, ctx(json!({"bound_ms": bound.as_millis() as u64}))));
                continue;
            }
            let resps: Vec<&Value> = r.frames.iter().filter(|f| f.get("method").is_none()).collect();
            // one response per request, in order
            let mut i = 1usize; // resps[0] answers initialize
            if resps.first().map(|f| f["id"] != 0 || f.get("result").is_none()).unwrap_or(true) {
                out.failures.push(Failure::new("no-answer", &label, ctx(json!({"to": "initialize", "exit": r.exit}))));
                continue;
            }
            let mut broken = false;
            for (rid, method, params) in &log {
                match resps.get(i) {
                    None => {
                        // The server stopped answering.  Responses still queued when it died are lost, so the
                        // killer is this request or a later one: find it by asking one request at a time.
                        let mut killer: Option<(String, Value, String)> = None;
                        if steps.is_empty() {
                            let mut live = Live::spawn(&exe, None);
                            let step = Duration::from_secs(20);
                            if live.request(0, "initialize", json!({"capabilities": {}}), step).is_ok() {
                                live.notify("initialized", json!({}));
                                live.notify("textDocument/didOpen", json!({"textDocument": {"uri": uri, "languageId": "spl", "version": 1, "text": texts[0]}}));
                                for (rid2, m2, p2) in log.iter().skip(i.saturating_sub(1)) {
                                    match live.request(*rid2 as i64, m2, p2.clone(), step) {
                                        Ok(v) if v.get("result").is_some() => {}
                                        Ok(v) => {
                                            killer = Some((m2.clone(), p2.clone(), format!("error response {v}")));
                                            break;
                                        }
                                        Err(why) => {
                                            killer = Some((m2.clone(), p2.clone(), why));
                                            break;
                                        }
                                    }
                                }
                            } else {
                                killer = Some(("textDocument/didOpen".into(), json!(null), "no answer to initialize".into()));
                            }
                        }
                        let (km, kp, kw) = killer.unwrap_or((method.clone(), params.clone(), "first unanswered request of the pipelined run".into()));
                        out.failures.push(Failure::new("server-died", km.rsplit('/').next().unwrap_or(""), ctx(json!({"request": km, "params": kp, "why": kw, "exit": r.exit, "answered": i - 1, "of": log.len()}))));
                        broken = true;
                        break;
                    }
                    Some(f) => {
                        if f["id"].as_u64() != Some(*rid) {
                            out.failures.push(Failure::new("response-order", method.rsplit('/').next().unwrap_or(""), ctx(json!({"expected_id": rid, "got": f}))));
                            broken = true;
                            break;
                        }
                        if f.get("error").is_some() || f.get("result").is_none() || f["jsonrpc"] != "2.0" {
                            out.failures.push(Failure::new("error-response", method.rsplit('/').next().unwrap_or(""), ctx(json!({"request": method, "params": params, "got": f}))));
                            broken = true;
                            break;
                        }
                    }
                }
                i += 1;
            }
            if broken {
                continue;
            }
            if resps.get(i).map(|f| f["id"].as_u64() != Some(shutdown_id)).unwrap_or(true) || r.exit != Some(0) {
                out.failures.push(Failure::new("unclean-end", &label, ctx(json!({"exit": r.exit, "responses": resps.len(), "expected": log.len() + 2}))));
            }
        }
        out
    })
}
