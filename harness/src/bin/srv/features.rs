//! mode `features` (C12 - C16): well-typed programs of SplStatic (identifier
//! terminals carry binding id and role; `decls` is the declaration table the
//! specification derived) opened in the real server; every navigation /
//! information request is asked at every relevant position and judged against
//! the answer the specification's bindings prescribe.  Failures carry `prop`.

use serde_json::{json, Value};
use std::collections::{BTreeSet, HashMap};
use std::time::Duration;
use vharness::lspclient::*;
use vharness::lspmodel::{self, Pos};
use vharness::prog::*;
use vharness::*;

const PREDEFINED: &[&str] = &["printi", "printc", "readi", "readc", "exit", "time", "clearAll", "setPixel", "drawLine", "drawCircle"];

fn pos_json(p: Pos) -> Value {
    json!({"line": p.line, "character": p.col})
}
fn range_json(text: &str, a: usize, b: usize) -> Value {
    json!({"start": pos_json(lspmodel::pos_of(text, a)), "end": pos_json(lspmodel::pos_of(text, b))})
}
fn fail(prop: &str, what: &str, site: &str, mut detail: Value) -> Failure {
    detail["prop"] = json!(prop);
    Failure::new(&format!("{prop}:{what}"), site, detail)
}

struct Ctx<'a> {
    p: &'a Prog,
    r: &'a Rendered,
    uri: String,
    decls: HashMap<String, Value>,
    bind: Vec<String>, // per terminal
    role: Vec<String>,
}

impl<'a> Ctx<'a> {
    fn span(&self, i: usize) -> (usize, usize) {
        let l = &self.r.lex[self.r.tok_index[i]];
        (l.start, l.end)
    }
    fn decl_token(&self, bind: &str) -> Option<usize> {
        (0..self.p.toks.len()).find(|&i| self.bind[i] == bind && self.role[i] == "decl")
    }
    fn kind_of<'b>(&self, bind: &'b str) -> &'b str {
        bind.split(':').next().unwrap_or("")
    }
    /// Situations in which the pinned server is known to answer wrongly (known findings); the suffix makes the
    /// failure site specific, so that nothing else is covered by those entries:
    /// * an identifier in a type position of a procedure (parameter or variable type) that names a declared type
    ///   while a parameter / local variable of that procedure carries the same name (the features resolve every
    ///   identifier inside a procedure through the local table first, whatever its syntactic position);
    /// * a variable of an anonymous array type that carries the name of a declared type (the creator of an
    ///   array type is recorded by NAME, so the variable's own type is mistaken for the declared one).
    fn quirk(&self, i: usize) -> &'static str {
        let b = &self.bind[i];
        let name = &self.p.toks[i].spell;
        if (b.starts_with("type:") || b == "builtin:int") && self.role[i] == "use" {
            if let Some(pd) = self.p.nodes.iter().find(|n| n.kind == "ProcDec" && n.first <= i && i <= n.last && n.last != usize::MAX) {
                let hidden = self.decls.values().any(|d| (d["kind"] == "param" || d["kind"] == "local") && d["owner"] == pd.attr.as_str() && d["name"] == name.as_str());
                if hidden {
                    return ":type-name-hidden-by-local";
                }
            }
        }
        if (b.starts_with("local:") || b.starts_with("param:")) && name == "int" {
            return ":variable-named-int";
        }
        if b.starts_with("local:") || b.starts_with("param:") {
            let anon = self.decls.get(b).map(|d| d["creator"] == b.as_str()).unwrap_or(false);
            let like_type = self.decls.values().any(|d| d["kind"] == "type" && d["name"] == name.as_str());
            if anon && like_type {
                return ":anonymous-array-named-like-type";
            }
        }
        ""
    }
    fn tdp(&self, off: usize) -> Value {
        json!({"textDocument": {"uri": self.uri}, "position": pos_json(lspmodel::pos_of(&self.r.text, off))})
    }
}

fn loc_range(v: &Value) -> Option<Value> {
    if v.is_null() {
        None
    } else if v.is_array() {
        v.get(0).map(|l| l["range"].clone())
    } else {
        Some(v["range"].clone())
    }
}

pub fn run(cases: Vec<(String, Value)>, max_fail: usize, opts: &HashMap<String, String>) -> Summary {
    let exe = opts["exe"].clone();
    let props: Vec<String> = opts.get("props").map(|s| s.split(',').map(|x| x.to_string()).collect()).unwrap_or_else(|| vec!["C12".into(), "C13".into(), "C14".into(), "C15".into(), "C16".into()]);
    let layouts: Vec<String> = opts.get("layouts").map(|s| s.split(',').map(|x| x.to_string()).collect()).unwrap_or_else(|| vec!["canon".into(), "doc".into(), "nl".into()]);
    let step = Duration::from_millis(opts.get("bound_ms").and_then(|s| s.parse().ok()).unwrap_or(20000));
    run_cases(cases, max_fail, move |_tag, case| {
        let mut out = Outcome::default();
        if case["fault"].as_str().unwrap_or("none") != "none" {
            return out;
        }
        let mut p = parse_out(&case["out"]);
        // expression literals re-spelled from the literal pool (array sizes are never `1` in SplStatic and stay as they are):
        // every literal is an int for the type rules, whatever its lexeme
        distinct_literals(&mut p);
        let p = p;
        out.nontrivial = p.toks.iter().filter(|t| t.kind == "Ident").count() >= 4;
        let decls: HashMap<String, Value> = case["decls"].as_array().cloned().unwrap_or_default().into_iter().map(|d| (d["id"].as_str().unwrap_or("").to_string(), d)).collect();
        let bind: Vec<String> = p.toks.iter().map(|t| t.extra.first().cloned().unwrap_or_default()).collect();
        let role: Vec<String> = p.toks.iter().map(|t| t.extra.get(1).cloned().unwrap_or_default()).collect();
        let mut live = Live::spawn(&exe, None);
        let init = match live.request(1, "initialize", json!({"capabilities": {"textDocument": {"publishDiagnostics": {}}}}), step) {
            Ok(v) => v,
            Err(_) => {
                out.failures.push(fail("C12", "no-answer", "", json!({"to": "initialize"})));
                return out;
            }
        };
        let legend_types: Vec<String> = init["result"]["capabilities"]["semanticTokensProvider"]["legend"]["tokenTypes"].as_array().cloned().unwrap_or_default().iter().map(|v| v.as_str().unwrap_or("").to_string()).collect();
        let legend_mods: Vec<String> = init["result"]["capabilities"]["semanticTokensProvider"]["legend"]["tokenModifiers"].as_array().cloned().unwrap_or_default().iter().map(|v| v.as_str().unwrap_or("").to_string()).collect();
        live.notify("initialized", json!({}));
        let mut id = 1i64;
        'layouts: for (li, lname) in layouts.iter().enumerate() {
            // layout "doc": a doc comment line before every declaration (type, proc, var, parameter)
            let mut l = layout(&p, if lname == "doc" { "canon" } else { lname });
            let mut docs: HashMap<String, String> = HashMap::new();
            if lname == "doc" {
                for n in p.nodes.iter().filter(|n| matches!(n.kind.as_str(), "TypeDec" | "ProcDec" | "VarDec" | "Param")) {
                    // binding id of the declared name: first identifier terminal with role decl inside the node
                    if let Some(t) = (n.first..=n.last).find(|&i| role[i] == "decl") {
                        let text = format!(" doc of {}", bind[t].replace(':', " "));
                        l.gaps[n.first].pre = if n.first == 0 { String::new() } else { " ".into() };
                        l.gaps[n.first].comments = vec![text.clone()];
                        l.gaps[n.first].post = String::new();
                        docs.insert(bind[t].clone(), text.trim().to_string());
                    }
                }
            }
            let r = render(&p, &l);
            let cx = Ctx { p: &p, r: &r, uri: format!("file:///f{li}.spl"), decls: decls.clone(), bind: bind.clone(), role: role.clone() };
            live.notes.clear();
            live.notify("textDocument/didOpen", json!({"textDocument": {"uri": cx.uri, "languageId": "spl", "version": 1, "text": r.text}}));
            macro_rules! ask {
                ($method:expr, $params:expr, $prop:expr) => {{
                    id += 1;
                    out.evals += 1;
                    let __params: Value = $params;
                    match live.request(id, $method, __params.clone(), step) {
                        Ok(v) => {
                            if v.get("error").is_some() {
                                out.failures.push(fail($prop, "error-response", $method, json!({"layout": lname, "text": r.text, "params": __params, "got": v})));
                                continue 'layouts;
                            }
                            v["result"].clone()
                        }
                        Err(why) => {
                            out.failures.push(fail($prop, "no-answer", $method, json!({"layout": lname, "text": r.text, "params": __params, "why": why})));
                            break 'layouts;
                        }
                    }
                }};
            }
            let idents: Vec<usize> = (0..p.toks.len()).filter(|&i| p.toks[i].kind == "Ident").collect();
            // ---------------------------------------------------------------- C12
            if props.iter().any(|x| x == "C12") {
                for &i in &idents {
                    let (a, b) = cx.span(i);
                    let bnd = &cx.bind[i];
                    let k = cx.kind_of(bnd).to_string();
                    let decl_tok = if matches!(k.as_str(), "type" | "proc" | "param" | "local") { cx.decl_token(bnd) } else { None };
                    let want_decl = decl_tok.map(|t| { let (s, e) = cx.span(t); range_json(&r.text, s, e) });
                    let want_impl = if k == "proc" { want_decl.clone() } else { None };
                    let want_tdef = match k.as_str() {
                        "type" => want_decl.clone(),
                        "param" | "local" => {
                            let creator = cx.decls.get(bnd).and_then(|d| d["creator"].as_str()).unwrap_or("").to_string();
                            if creator.starts_with("type:") { cx.decl_token(&creator).map(|t| { let (s, e) = cx.span(t); range_json(&r.text, s, e) }) } else { None }
                        }
                        _ => None,
                    };
                    let mut offs = vec![a, a + (b - a) / 2, b - 1];
                    offs.dedup();
                    for o in offs {
                        for (method, want) in [("textDocument/declaration", &want_decl), ("textDocument/definition", &want_decl),
                                               ("textDocument/implementation", &want_impl), ("textDocument/typeDefinition", &want_tdef)] {
                            let got = ask!(method, cx.tdp(o), "C12");
                            let got_range = loc_range(&got);
                            if got_range != *want {
                                let site = format!("{}:{}:{}{}", method.rsplit('/').next().unwrap_or(""), k, cx.role[i], cx.quirk(i));
                                out.failures.push(fail("C12", "wrong-location", &site,
                                    json!({"layout": lname, "text": r.text, "identifier": p.toks[i].spell, "binding": bnd, "at_byte": o, "method": method,
                                           "expected_range": want, "got": got})));
                            }
                        }
                    }
                }
                // non-identifier tokens and white space: no location
                for i in (0..p.toks.len()).filter(|&i| p.toks[i].kind != "Ident").step_by(3) {
                    let (a, _) = cx.span(i);
                    for method in ["textDocument/declaration", "textDocument/typeDefinition", "textDocument/implementation"] {
                        let got = ask!(method, cx.tdp(a), "C12");
                        if loc_range(&got).is_some() {
                            out.failures.push(fail("C12", "location-for-non-identifier", method, json!({"layout": lname, "text": r.text, "token": p.toks[i].spell, "got": got})));
                        }
                    }
                }
            }
            // ---------------------------------------------------------------- C13
            if props.iter().any(|x| x == "C13") {
                let before = live.notes.iter().filter(|n| n["method"] == "textDocument/publishDiagnostics").last().map(|n| n["params"]["diagnostics"].clone());
                for &i in &idents {
                    let (a, b) = cx.span(i);
                    let bnd = cx.bind[i].clone();
                    let k = cx.kind_of(&bnd).to_string();
                    let occ: Vec<usize> = idents.iter().cloned().filter(|&j| cx.bind[j] == bnd).collect();
                    let site = format!("{}:{}{}", k, cx.role[i], cx.quirk(i));
                    // references
                    let mut params = cx.tdp(a + (b - a) / 2);
                    params["context"] = json!({"includeDeclaration": true});
                    let got = ask!("textDocument/references", params, "C13");
                    let got_set: BTreeSet<String> = got.as_array().cloned().unwrap_or_default().iter().map(|l| l["range"].to_string()).collect();
                    let want_set: BTreeSet<String> = occ.iter().filter(|&&j| j != i).map(|&j| { let (s, e) = cx.span(j); range_json(&r.text, s, e).to_string() }).collect();
                    if got_set != want_set && k != "builtin" {
                        out.failures.push(fail("C13", "references", &site, json!({"layout": lname, "text": r.text, "identifier": p.toks[i].spell, "binding": bnd,
                                                "expected": want_set, "got": got_set})));
                    }
                    if k == "builtin" {
                        continue;
                    }
                    // prepareRename / rename
                    let prep = ask!("textDocument/prepareRename", cx.tdp(a), "C13");
                    let mut rp = cx.tdp(a);
                    rp["newName"] = json!("zz9");
                    let ren = ask!("textDocument/rename", rp, "C13");
                    let edits: Vec<Value> = ren["changes"].as_object().and_then(|m| m.values().next().cloned()).and_then(|v| v.as_array().cloned()).unwrap_or_default();
                    let offered = !ren.is_null();
                    if offered != !prep.is_null() || (offered && prep != range_json(&r.text, a, b) && prep["range"] != range_json(&r.text, a, b)) {
                        out.failures.push(fail("C13", "prepare-rename", &site, json!({"layout": lname, "text": r.text, "identifier": p.toks[i].spell, "prepare": prep, "rename_offered": offered})));
                    }
                    let got_edits: BTreeSet<String> = edits.iter().map(|e| e["range"].to_string()).collect();
                    let want_edits: BTreeSet<String> = occ.iter().map(|&j| { let (s, e) = cx.span(j); range_json(&r.text, s, e).to_string() }).collect();
                    if got_edits != want_edits || edits.len() != occ.len() || edits.iter().any(|e| e["newText"] != "zz9") {
                        out.failures.push(fail("C13", "rename-edits", &site, json!({"layout": lname, "text": r.text, "identifier": p.toks[i].spell, "binding": bnd,
                                                "expected": want_edits, "got": edits})));
                        continue;
                    }
                    // apply (own edit model): the specification's re-rendering = same program with the spelling replaced
                    if cx.role[i] == "decl" && p.toks[i].spell != "main" {
                        let mut p2 = p.clone();
                        for &j in &occ {
                            p2.toks[j].spell = "zz9".into();
                        }
                        let r2 = render(&p2, &l);
                        let mut applied = r.text.clone();
                        let mut es: Vec<(usize, usize)> = occ.iter().map(|&j| cx.span(j)).collect();
                        es.sort();
                        for (s, e) in es.into_iter().rev() {
                            applied.replace_range(s..e, "zz9");
                        }
                        if applied != r2.text {
                            eprintln!("harness: applied rename differs from re-rendering");
                            std::process::exit(2);
                        }
                        let uri2 = format!("file:///f{li}_ren{i}.spl");
                        live.notes.clear();
                        live.notify("textDocument/didOpen", json!({"textDocument": {"uri": uri2, "languageId": "spl", "version": 1, "text": applied}}));
                        // references in the renamed text: same occurrences bound together
                        let (a2, b2) = { let lx = &r2.lex[r2.tok_index[i]]; (lx.start, lx.end) };
                        let mut params = json!({"textDocument": {"uri": uri2}, "position": pos_json(lspmodel::pos_of(&applied, a2)), "context": {"includeDeclaration": true}});
                        let got2 = ask!("textDocument/references", params.clone(), "C13");
                        let got2_set: BTreeSet<String> = got2.as_array().cloned().unwrap_or_default().iter().map(|l| l["range"].to_string()).collect();
                        let want2: BTreeSet<String> = occ.iter().filter(|&&j| j != i).map(|&j| { let lx = &r2.lex[r2.tok_index[j]]; range_json(&applied, lx.start, lx.end).to_string() }).collect();
                        if got2_set != want2 {
                            out.failures.push(fail("C13", "rename-breaks-binding", &site, json!({"layout": lname, "text": applied, "expected": want2, "got": got2_set})));
                        }
                        let after = live.notes.iter().filter(|n| n["method"] == "textDocument/publishDiagnostics" && n["params"]["uri"] == uri2.as_str()).last().map(|n| n["params"]["diagnostics"].clone());
                        if before.is_some() && after.is_some() && before.as_ref().map(|d| d.as_array().map(|a| a.len())) != after.as_ref().map(|d| d.as_array().map(|a| a.len())) {
                            out.failures.push(fail("C13", "rename-changes-diagnostics", &site, json!({"layout": lname, "text": applied, "before": before, "after": after})));
                        }
                        // rename back restores the original text
                        params = json!({"textDocument": {"uri": uri2}, "position": pos_json(lspmodel::pos_of(&applied, a2)), "newName": p.toks[i].spell});
                        let back = ask!("textDocument/rename", params, "C13");
                        let bedits: Vec<Value> = back["changes"].as_object().and_then(|m| m.values().next().cloned()).and_then(|v| v.as_array().cloned()).unwrap_or_default();
                        let mut restored = applied.clone();
                        let mut spans: Vec<(usize, usize, String)> = bedits.iter().map(|e| {
                            let g = |v: &Value| Pos { line: v["line"].as_u64().unwrap_or(0) as u32, col: v["character"].as_u64().unwrap_or(0) as u32 };
                            (lspmodel::offset_of(&applied, g(&e["range"]["start"])), lspmodel::offset_of(&applied, g(&e["range"]["end"])), e["newText"].as_str().unwrap_or("").to_string())
                        }).collect();
                        spans.sort();
                        for (s, e, t) in spans.into_iter().rev() {
                            if s <= e && e <= restored.len() {
                                restored.replace_range(s..e, &t);
                            }
                        }
                        if restored != r.text {
                            out.failures.push(fail("C13", "rename-back", &site, json!({"layout": lname, "original": r.text, "restored": restored})));
                        }
                        live.notify("textDocument/didClose", json!({"textDocument": {"uri": uri2}}));
                        let _ = b2;
                    }
                }
            }
            // ---------------------------------------------------------------- C14
            if props.iter().any(|x| x == "C14") {
                let norm = |s: &str| s.split_whitespace().collect::<Vec<_>>().join(" ");
                for &i in &idents {
                    let (a, b) = cx.span(i);
                    let bnd = cx.bind[i].clone();
                    let k = cx.kind_of(&bnd).to_string();
                    let got = ask!("textDocument/hover", cx.tdp(a + (b - a) / 2), "C14");
                    let Some(d) = cx.decls.get(&bnd) else { continue };
                    let site = format!("hover:{}{}", k, cx.quirk(i));
                    if got.is_null() {
                        out.failures.push(fail("C14", "no-hover", &site, json!({"layout": lname, "text": r.text, "identifier": p.toks[i].spell, "binding": bnd})));
                        continue;
                    }
                    if got["range"] != range_json(&r.text, a, b) {
                        out.failures.push(fail("C14", "hover-range", &site, json!({"layout": lname, "text": r.text, "identifier": p.toks[i].spell, "expected": range_json(&r.text, a, b), "got": got["range"]})));
                    }
                    let value = norm(got["contents"]["value"].as_str().unwrap_or(""));
                    // required components: name, ref marker, resolved type / parameter list; kind word for procedures
                    let name = d["name"].as_str().unwrap_or("");
                    let mut missing: Vec<String> = Vec::new();
                    match d["kind"].as_str().unwrap_or("") {
                        "proc" => {
                            let sig = norm(&format!("proc {}({})", name, d["params"].as_array().cloned().unwrap_or_default().iter().map(|x| x.as_str().unwrap_or("").to_string()).collect::<Vec<_>>().join(", ")));
                            let ok = if k == "builtin" { value.contains(&norm(&format!("proc {}(", name))) } else { value.contains(&sig) };
                            if !ok {
                                missing.push(format!("signature `{sig}`"));
                            }
                        }
                        "type" => {
                            let ty = norm(d["type"].as_str().unwrap_or(""));
                            if !value.contains(&ty) {
                                missing.push(format!("resolved type `{ty}`"));
                            }
                            if !value.contains(name) {
                                missing.push("name-of-type".to_string());
                            }
                        }
                        _ => {
                            let sig = norm(&format!("{}{}: {}", if d["ref"].as_bool().unwrap_or(false) { "ref " } else { "" }, name, d["type"].as_str().unwrap_or("")));
                            if !value.contains(&sig) {
                                missing.push(format!("`{sig}`"));
                            }
                            if !d["ref"].as_bool().unwrap_or(false) && value.contains(&format!("ref {name}")) {
                                missing.push("spurious ref marker".into());
                            }
                        }
                    }
                    if let Some(doc) = docs.get(&bnd) {
                        match value.find(doc.as_str()) {
                            None => missing.push(format!("doc comment `{doc}`")),
                            Some(at) => {
                                if !missing.is_empty() || value[..at].trim().is_empty() {
                                    // doc must FOLLOW the signature
                                    if value[..at].trim().is_empty() {
                                        missing.push("signature before the doc comment".into());
                                    }
                                }
                            }
                        }
                    }
                    if !missing.is_empty() {
                        let only_type_name = missing.len() == 1 && missing[0] == "name-of-type";
                        let s2 = if only_type_name { "hover:type-lacks-name".to_string() } else { site.clone() };
                        out.failures.push(fail("C14", "hover-content", &s2, json!({"layout": lname, "text": r.text, "identifier": p.toks[i].spell, "binding": bnd, "missing": missing, "got": got["contents"]["value"]})));
                    }
                }
                // signature help inside every argument list
                for (ci, c) in p.nodes.iter().enumerate().filter(|(_, n)| n.kind == "Call") {
                    // own terminals of the call: ( , ... )
                    let own: Vec<usize> = (c.first..=c.last).filter(|&t| !p.nodes.iter().enumerate().any(|(k, n)| k != ci && n.parent == Some(ci) && n.first <= t && t <= n.last && n.last != usize::MAX)).collect();
                    let lp = own.iter().cloned().find(|&t| p.toks[t].kind == "LParen");
                    let rp = own.iter().cloned().rev().find(|&t| p.toks[t].kind == "RParen");
                    let (Some(lp), Some(rp)) = (lp, rp) else { continue };
                    let commas: Vec<usize> = own.iter().cloned().filter(|&t| p.toks[t].kind == "Comma").collect();
                    let callee = &cx.bind[c.first];
                    let Some(d) = cx.decls.get(callee) else { continue };
                    let nparams = d["params"].as_array().map(|a| a.len()).unwrap_or(0);
                    // cursor positions: end of `(`, start of every token inside, start of `)`
                    let mut offs: Vec<usize> = vec![cx.span(lp).1];
                    for t in (lp + 1)..=rp {
                        offs.push(cx.span(t).0);
                        if t < rp {
                            offs.push(cx.span(t).1); // directly behind the token (e.g. behind a comma just typed)
                        }
                    }
                    offs.sort();
                    offs.dedup();
                    for o in offs {
                        let got = ask!("textDocument/signatureHelp", cx.tdp(o), "C14");
                        let active = commas.iter().filter(|&&t| cx.span(t).1 <= o).count();
                        let sig = &got["signatures"][0];
                        // (names of the parameters of PREDEFINED procedures are not specified: compare `ref` and type only)
                        let builtin = callee.starts_with("builtin:");
                        let strip = |s: String| -> String {
                            if !builtin { return s; }
                            let r = if s.starts_with("ref ") { "ref " } else { "" };
                            format!("{}_: {}", r, s.split(':').nth(1).unwrap_or("").trim())
                        };
                        let labels: Vec<String> = sig["parameters"].as_array().cloned().unwrap_or_default().iter().map(|x| strip(norm(x["label"].as_str().unwrap_or("")))).collect();
                        let want_labels: Vec<String> = d["params"].as_array().cloned().unwrap_or_default().iter().map(|x| strip(norm(x.as_str().unwrap_or("")))).collect();
                        let label_ok = norm(sig["label"].as_str().unwrap_or("")).contains(&norm(&format!("proc {}(", d["name"].as_str().unwrap_or(""))));
                        let act = got["activeParameter"].as_u64().or(sig["activeParameter"].as_u64());
                        let act_ok = nparams == 0 || act == Some(active as u64);
                        if got.is_null() || !label_ok || labels != want_labels || !act_ok {
                            out.failures.push(fail("C14", "signature-help", if nparams == 0 { "no-params" } else { "params" },
                                json!({"layout": lname, "text": r.text, "callee": callee, "at_byte": o, "expected_active": active, "expected_parameters": want_labels, "got": got})));
                            break;
                        }
                    }
                }
            }
            // ---------------------------------------------------------------- C15
            if props.iter().any(|x| x == "C15") {
                let got = ask!("textDocument/semanticTokens/full", json!({"textDocument": {"uri": cx.uri}}), "C15");
                let data: Vec<u64> = got["data"].as_array().cloned().unwrap_or_default().iter().map(|v| v.as_u64().unwrap_or(u64::MAX)).collect();
                let mut line = 0u64;
                let mut col = 0u64;
                let mut prev_end: Option<(u64, u64)> = None;
                let mut seen: HashMap<usize, (String, bool)> = HashMap::new(); // lex index -> (type, decl)
                let mut bad = data.len() % 5 != 0 || data.iter().any(|v| *v == u64::MAX);
                let mut why = String::new();
                if !bad {
                    for ch in data.chunks(5) {
                        if ch[0] > 0 { line += ch[0]; col = ch[1]; } else { col += ch[1]; }
                        if let Some((pl, pe)) = prev_end {
                            if (line, col) < (pl, pe) { bad = true; why = format!("token at {line}:{col} overlaps or precedes the previous one ending {pl}:{pe}"); break; }
                        }
                        prev_end = Some((line, col + ch[2]));
                        let start = lspmodel::offset_of(&r.text, Pos { line: line as u32, col: col as u32 });
                        // must coincide with one lexical token
                        let Some(li2) = r.lex.iter().position(|x| x.start == start) else { bad = true; why = format!("no lexical token starts at {line}:{col}"); break };
                        let lx = &r.lex[li2];
                        let units: usize = r.text[lx.start..lx.end].trim_end_matches('\n').trim_end_matches('\r').chars().map(|c| c.len_utf16()).sum();
                        let units_nl: usize = r.text[lx.start..lx.end].chars().map(|c| c.len_utf16()).sum();
                        if ch[2] as usize != units && !(lx.comment.is_some() && ch[2] as usize == units_nl) {
                            bad = true; why = format!("length {} of token at {line}:{col}, lexical token has {units} UTF-16 units", ch[2]); break;
                        }
                        let ty = legend_types.get(ch[3] as usize).cloned().unwrap_or_else(|| "?".into());
                        let decl = ch[4] & 1 == 1 && legend_mods.first().map(|m| m == "declaration").unwrap_or(false);
                        seen.insert(li2, (ty, decl));
                    }
                }
                if bad {
                    out.failures.push(fail("C15", "malformed", "", json!({"layout": lname, "text": r.text, "why": why, "data": data})));
                } else {
                    for (li2, lx) in r.lex.iter().enumerate() {
                        let want: Option<(String, bool)> = match (&lx.comment, lx.tok) {
                            (Some(_), _) => Some(("comment".into(), false)),
                            (None, Some(t)) => {
                                let tk = &p.toks[t];
                                match tk.kind.as_str() {
                                    "If" | "Else" | "While" | "Array" | "Of" | "Proc" | "Ref" | "Type" | "Var" => Some(("keyword".into(), false)),
                                    "Int" | "Hex" | "Char" => Some(("number".into(), false)),
                                    "Ident" => {
                                        let k = cx.kind_of(&cx.bind[t]).to_string();
                                        let k = if k == "builtin" { cx.decls.get(&cx.bind[t]).map(|d| d["kind"].as_str().unwrap_or("").to_string()).unwrap_or_else(|| if tk.spell == "int" { "type".into() } else { "".into() }) } else { k };
                                        let ty = match k.as_str() { "type" => "type", "proc" => "function", "param" => "parameter", "local" => "variable", _ => "" };
                                        if ty.is_empty() { None } else { Some((ty.to_string(), cx.role[t] == "decl")) }
                                    }
                                    _ => None,
                                }
                            }
                            _ => None,
                        };
                        if let Some((wty, wdecl)) = want {
                            let g = seen.get(&li2);
                            if g.map(|x| (&x.0, x.1)) != Some((&wty, wdecl)) {
                                let trailing = lx.comment.is_some() && r.lex[li2..].iter().all(|x| x.comment.is_some());
                                let quirk = lx.tok.map(|t| cx.quirk(t)).unwrap_or("");
                                let site = if trailing { "comment:after-last-declaration".to_string() } else { format!("{}:{}{}", wty, if wdecl { "decl" } else { "use" }, quirk) };
                                if trailing || !quirk.is_empty() {
                                    out.failures.push(fail("C15", "classification", &site, json!({"layout": lname, "text": r.text, "token": &r.text[lx.start..lx.end], "at_byte": lx.start,
                                                            "expected": [wty, wdecl], "got": g.map(|x| json!([x.0, x.1]))})));
                                    continue;
                                }
                                out.failures.push(fail("C15", "classification", &site, json!({"layout": lname, "text": r.text, "token": &r.text[lx.start..lx.end], "at_byte": lx.start,
                                                        "expected": [wty, wdecl], "got": g.map(|x| json!([x.0, x.1]))})));
                                break;
                            }
                        }
                    }
                }
            }
            // ---------------------------------------------------------------- C16
            if props.iter().any(|x| x == "C16") {
                let items_of = |v: &Value, kind: u64| -> BTreeSet<String> {
                    let arr = if v.is_array() { v.as_array().cloned().unwrap_or_default() } else { v["items"].as_array().cloned().unwrap_or_default() };
                    arr.iter().filter(|it| it["kind"].as_u64() == Some(kind)).map(|it| it["label"].as_str().unwrap_or("").to_string()).collect()
                };
                let all_procs: BTreeSet<String> = cx.decls.values().filter(|d| d["kind"] == "proc" && !d["id"].as_str().unwrap_or("").starts_with("builtin:")).map(|d| d["name"].as_str().unwrap_or("").to_string())
                    .chain(PREDEFINED.iter().map(|s| s.to_string())).collect();
                let all_types: BTreeSet<String> = cx.decls.values().filter(|d| d["kind"] == "type").map(|d| d["name"].as_str().unwrap_or("").to_string()).chain(std::iter::once("int".to_string())).collect();
                let vars_of = |procname: &str| -> BTreeSet<String> {
                    cx.decls.values().filter(|d| (d["kind"] == "param" || d["kind"] == "local") && d["owner"] == procname).map(|d| d["name"].as_str().unwrap_or("").to_string()).collect()
                };
                let (k_var, k_fun, k_struct) = (6u64, 3u64, 22u64);
                for (pi, pd) in p.nodes.iter().enumerate().filter(|(_, n)| n.kind == "ProcDec") {
                    let vars = vars_of(&pd.attr);
                    // statement starts (first character of the first token of a statement, preceded by a non-empty gap)
                    for st in p.nodes.iter().filter(|n| matches!(n.kind.as_str(), "Empty" | "Assign" | "Call" | "If" | "While" | "Block") && n.first >= pd.first && n.last <= pd.last && n.last != usize::MAX) {
                        let (a, _) = cx.span(st.first);
                        let prev_end = if st.first > 0 { cx.span(st.first - 1).1 } else { 0 };
                        // a statement glued to the preceding token (layout `min`): a statement position as well; its own site class
                        let glued = a == prev_end;
                        // only statements directly in the procedure body or a block (a branch position is a statement position too)
                        let got = ask!("textDocument/completion", cx.tdp(a), "C16");
                        let gv = items_of(&got, k_var);
                        let gf = items_of(&got, k_fun);
                        let prev_kind = if st.first > 0 { p.toks[st.first - 1].kind.as_str() } else { "" };
                        let in_proc_body = st.parent.map(|q| p.nodes[q].kind == "ProcDec").unwrap_or(false);
                        let site = if glued { format!("stmt-start-glued-to-{}{}", prev_kind, if in_proc_body { ":procedure-body" } else { "" }) } else { format!("stmt-start-after-{}", prev_kind) };
                        if gv != vars || gf != all_procs {
                            out.failures.push(fail("C16", "statement-start", &site, json!({"layout": lname, "text": r.text, "at_byte": a, "procedure": pd.attr,
                                                    "expected_variables": vars, "got_variables": gv, "expected_procedures": all_procs, "got_procedures": gf})));
                        } else {
                            // never a name local to another procedure
                            let foreign: BTreeSet<String> = cx.decls.values().filter(|d| (d["kind"] == "param" || d["kind"] == "local") && d["owner"] != pd.attr.as_str()).map(|d| d["name"].as_str().unwrap_or("").to_string()).filter(|n| !vars.contains(n)).collect();
                            if gv.iter().any(|v| foreign.contains(v)) {
                                out.failures.push(fail("C16", "foreign-local", &site, json!({"layout": lname, "text": r.text, "at_byte": a, "got_variables": gv})));
                            }
                        }
                    }
                    // after `:=` / `(` inside statements: the variables of the procedure
                    for t in pd.first..=pd.last {
                        let tk = p.toks[t].kind.as_str();
                        let in_stmt = p.nodes.iter().any(|n| matches!(n.kind.as_str(), "Assign" | "Call" | "If" | "While") && n.first <= t && t <= n.last && n.last != usize::MAX && n.first >= pd.first);
                        if in_stmt && (tk == "Assign" || tk == "LParen") && t + 1 < p.toks.len() {
                            // directly behind the token and at the start of the next token
                            let o = cx.span(t + 1).0;
                            if o == cx.span(t).1 {
                                continue;
                            }
                            // every `(` inside the statement counts: the one of the call / condition and those of bracketed
                            // sub-expressions (a position after `(` inside a statement, whatever stands before it)
                            let is_own = p.nodes.iter().any(|n| matches!(n.kind.as_str(), "Call" | "If" | "While" | "Assign") && n.first <= t && t <= n.last
                                && !p.nodes.iter().any(|m| m.parent.map(|q| std::ptr::eq(&p.nodes[q], n)).unwrap_or(false) && m.first <= t && t <= m.last && m.last != usize::MAX));
                            // a `(` in the index expression of an assignment's target stands left of the `:=` (known finding)
                            let left_of_assign = p.nodes.iter().any(|n| n.kind == "Assign" && n.first <= t && t <= n.last && n.last != usize::MAX
                                && (n.first..=n.last).find(|&j| p.toks[j].kind == "Assign").map(|j| t < j).unwrap_or(false)
                                && !p.nodes.iter().any(|m| matches!(m.kind.as_str(), "Call" | "If" | "While") && m.first >= n.first && m.last <= n.last && m.first <= t && t <= m.last));
                            let tk = if left_of_assign { "LParen-in-assignment-target".to_string() } else if is_own { tk.to_string() } else { format!("inner-{tk}") };
                            let got = ask!("textDocument/completion", cx.tdp(o), "C16");
                            let gv = items_of(&got, k_var);
                            if gv != vars {
                                out.failures.push(fail("C16", "expression-start", &format!("after-{tk}"), json!({"layout": lname, "text": r.text, "at_byte": o, "procedure": pd.attr, "expected_variables": vars, "got_variables": gv})));
                            }
                        }
                        // after `:` in parameter and variable declarations: the types
                        let in_decl = p.nodes.iter().any(|n| matches!(n.kind.as_str(), "Param" | "VarDec") && n.first <= t && t <= n.last && n.last != usize::MAX && n.first >= pd.first);
                        if in_decl && tk == "Colon" && t + 1 < p.toks.len() {
                            let o = cx.span(t + 1).0;
                            if o == cx.span(t).1 {
                                continue;
                            }
                            let got = ask!("textDocument/completion", cx.tdp(o), "C16");
                            let gt = items_of(&got, k_struct);
                            if gt != all_types {
                                out.failures.push(fail("C16", "type-position", "after-colon", json!({"layout": lname, "text": r.text, "at_byte": o, "expected_types": all_types, "got_types": gt})));
                            }
                        }
                    }
                    let _ = pi;
                }
                // top-level gaps: only declaration starters
                let tops: Vec<&Node> = p.nodes.iter().filter(|n| n.depth == 1).collect();
                let mut gaps: Vec<usize> = Vec::new();
                for w in tops.windows(2) {
                    let e = cx.span(w[0].last).1;
                    let s = cx.span(w[1].first).0;
                    if s > e + 1 {
                        gaps.push(e + 1);
                    }
                }
                if r.text.ends_with('\n') || r.text.ends_with(' ') {
                    gaps.push(r.text.len());
                }
                for o in gaps {
                    let got = ask!("textDocument/completion", cx.tdp(o), "C16");
                    let arr = if got.is_array() { got.as_array().cloned().unwrap_or_default() } else { got["items"].as_array().cloned().unwrap_or_default() };
                    let labels: BTreeSet<String> = arr.iter().map(|it| it["label"].as_str().unwrap_or("").to_string()).collect();
                    let allowed: BTreeSet<String> = ["proc", "type", "main"].iter().map(|s| s.to_string()).collect();
                    if !labels.is_subset(&allowed) || !labels.contains("proc") || !labels.contains("type") {
                        out.failures.push(fail("C16", "top-level", "", json!({"layout": lname, "text": r.text, "at_byte": o, "got_labels": labels})));
                    }
                }
            }
            live.notify("textDocument/didClose", json!({"textDocument": {"uri": cx.uri}}));
        }
        let _ = live.finish(id + 1, step);
        out
    })
}
