//! mode `histsession` (C01, server level): HISTORY cases of SplSession as didChange notifications
//! against the hooked server.  After every notification `$/verif/text` must answer the client's text;
//! at the end the diagnostics last published for the edited document must equal those published when
//! the final text is opened fresh under another URI.  The run is recorded through the hooks: TraceServer
//! then requires `inc_eq_fresh` at every broker change.

use serde_json::{json, Value};
use std::collections::HashMap;
use std::io::Write;
use std::sync::{Arc, Mutex};
use std::time::Duration;
use vharness::lspmodel;
use vharness::prog::realise_history;
use vharness::*;

pub fn run(cases: Vec<(String, Value)>, max_fail: usize, opts: &HashMap<String, String>) -> Summary {
    let exe = opts["exe"].clone();
    let bound = Duration::from_millis(opts.get("bound_ms").and_then(|s| s.parse().ok()).unwrap_or(60000));
    let trace_out = opts.get("trace_out").cloned();
    let tmpdir = opts.get("tmp").cloned().unwrap_or_else(|| "/verif/out".into());
    let tfile = trace_out.map(|p| Arc::new(Mutex::new(std::io::BufWriter::new(std::fs::File::create(p).expect("trace_out")))));
    let tf2 = tfile.clone();
    let s = run_cases(cases, max_fail, move |_tag, case| {
        let mut out = Outcome::default();
        let (base, steps) = realise_history(case);
        out.nontrivial = !steps.is_empty();
        let uri = "file:///hist.spl";
        let uri2 = "file:///fresh.spl";
        let pj = |t: &str, o: usize| { let p = lspmodel::pos_of(t, o); json!({"line": p.line, "character": p.col}) };
        let mut msgs: Vec<Value> = vec![
            json!({"jsonrpc": "2.0", "id": 1000001, "method": "initialize", "params": {"capabilities": {"textDocument": {"publishDiagnostics": {}}}}}),
            json!({"jsonrpc": "2.0", "method": "initialized", "params": {}}),
            json!({"jsonrpc": "2.0", "method": "textDocument/didOpen", "params": {"textDocument": {"uri": uri, "languageId": "spl", "version": 1, "text": base}}}),
        ];
        let mut cur = base.clone();
        for (k, st) in steps.iter().enumerate() {
            let mut changes = Vec::new();
            for (r, ins) in &st.changes {
                changes.push(json!({"range": {"start": pj(&cur, r.start), "end": pj(&cur, r.end)}, "text": ins}));
                cur.replace_range(r.clone(), ins);
            }
            msgs.push(json!({"jsonrpc": "2.0", "method": "textDocument/didChange", "params": {"textDocument": {"uri": uri, "version": k + 2}, "contentChanges": changes}}));
            msgs.push(json!({"jsonrpc": "2.0", "id": k + 1, "method": "$/verif/text", "params": {"uri": uri}}));
        }
        msgs.push(json!({"jsonrpc": "2.0", "method": "textDocument/didOpen", "params": {"textDocument": {"uri": uri2, "languageId": "spl", "version": 1, "text": cur}}}));
        msgs.push(json!({"jsonrpc": "2.0", "id": 2000001, "method": "shutdown", "params": null}));
        msgs.push(json!({"jsonrpc": "2.0", "method": "exit", "params": null}));
        let tmp = format!("{}/trace_{}_{:x}.ndjson", tmpdir, std::process::id(), fxhash(case.to_string().as_bytes()));
        let (events, r) = super::trace::record_session(&exe, &msgs, bound, &tmp);
        if let Some(tf) = &tf2 {
            let mut f = tf.lock().unwrap();
            for e in events {
                writeln!(f, "{}", e).unwrap();
            }
        }
        out.evals = steps.len();
        let desc = || json!({"base": base, "steps": steps.iter().map(|s| json!({"changes": s.changes.iter().map(|(r, t)| json!([r.start, r.end, t])).collect::<Vec<_>>(), "after": s.text_after})).collect::<Vec<_>>()});
        if r.timed_out || r.frame_error.is_some() {
            out.failures.push(Failure::new("session-broken", "", json!({"history": desc(), "timed_out": r.timed_out, "frame_error": r.frame_error})));
            return out;
        }
        let mut by_id: HashMap<u64, &Value> = HashMap::new();
        for f in &r.frames {
            if f.get("method").is_none() {
                if let Some(i) = f["id"].as_u64() {
                    by_id.insert(i, f);
                }
            }
        }
        for (k, st) in steps.iter().enumerate() {
            match by_id.get(&((k + 1) as u64)) {
                None => {
                    out.failures.push(Failure::new("no-answer", "", json!({"history": desc(), "step": k, "exit": r.exit})));
                    return out;
                }
                Some(f) => {
                    if f["result"].as_str() != Some(st.text_after.as_str()) {
                        out.failures.push(Failure::new("text-differs", "", json!({"history": desc(), "step": k, "got": f.get("result")})));
                        return out;
                    }
                }
            }
        }
        let diags = |u: &str| -> Option<Vec<String>> {
            r.frames.iter().filter(|f| f["method"] == "textDocument/publishDiagnostics" && f["params"]["uri"] == u).last().map(|f| {
                let mut v: Vec<String> = f["params"]["diagnostics"].as_array().cloned().unwrap_or_default().iter().map(|d| format!("{} {}", d["range"], d["message"])).collect();
                v.sort();
                v
            })
        };
        let (a, b) = (diags(uri), diags(uri2));
        if a != b {
            let lost: Vec<&String> = b.iter().flatten().filter(|x| !a.iter().flatten().any(|y| y == *x)).collect();
            let extra: Vec<&String> = a.iter().flatten().filter(|x| !b.iter().flatten().any(|y| y == *x)).collect();
            let only_expected = extra.is_empty() && lost.iter().all(|m| m.contains("expected `"));
            out.failures.push(Failure::new("diagnostics-differ-from-fresh", if only_expected { "lost-expected-diagnostic" } else { "" },
                                           json!({"history": desc(), "edited": a, "fresh": b})));
        }
        out
    });
    if let Some(tf) = tfile {
        tf.lock().unwrap().flush().unwrap();
    }
    s
}
