//! mode `format` (C09, C10, C11, C17): programs of the derivation machine under
//! layouts, opened in the real server; document formatting and folding ranges
//! are requested and judged against the specified token sequence / tree.
//! Every failure carries `prop` (which property it falsifies) and, for
//! comments, the syntactic SITE of the gap the comment was written in.

use serde_json::{json, Value};
use std::collections::HashMap;
use std::time::Duration;
use vharness::lspclient::*;
use vharness::lspmodel::{self, Pos};
use vharness::prog::*;
use vharness::*;

const STMT_LEVEL: &[&str] = &["Program", "TypeDec", "ProcDec", "Param", "VarDec", "Empty", "Assign", "Call", "If", "While", "Block"];

/// SITE of the gap before terminal `i` (i == ntoks: the gap after the last terminal):
/// "<parent statement-level kind>/<statement-level node S>:<slot>" where slot is the ordinal of the
/// terminal among S's own terminals, or "in-<child kind>" if it belongs to a non-statement child.
pub fn site_of_gap(p: &Prog, i: usize) -> String {
    if i >= p.toks.len() {
        return "Program:end".into();
    }
    // innermost statement-level node containing terminal i
    let mut best: Option<usize> = None;
    for (k, n) in p.nodes.iter().enumerate() {
        if STMT_LEVEL.contains(&n.kind.as_str()) && n.first <= i && i <= n.last && n.last != usize::MAX {
            best = Some(k);
        }
    }
    let Some(s) = best else { return "Program:?".into() };
    let sn = &p.nodes[s];
    // parent statement-level node
    let mut par = sn.parent;
    while let Some(q) = par {
        if STMT_LEVEL.contains(&p.nodes[q].kind.as_str()) {
            break;
        }
        par = p.nodes[q].parent;
    }
    // only one thing about the parent matters: a statement that is the branch of an if/while
    let pk = match par.map(|q| p.nodes[q].kind.as_str()) {
        Some("If") | Some("While") => "branch".to_string(),
        _ => String::new(),
    };
    // is terminal i a direct terminal of S?  (not inside any child node of S)
    let mut child_kind: Option<String> = None;
    for (k, n) in p.nodes.iter().enumerate() {
        if k != s && n.parent == Some(s) && n.first <= i && i <= n.last && n.last != usize::MAX {
            child_kind = Some(n.kind.clone());
        }
    }
    let slot = match child_kind {
        Some(ck) => {
            // which child position (e.g. condition vs argument) matters less than its kind class
            let class = match ck.as_str() {
                "Ident" => "name",
                "NamedType" | "ArrayType" => "type",
                _ => "expr",
            };
            format!("in-{class}")
        }
        None => format!("'{}'", p.toks[i].spell),
    };
    format!("{}/{}:{}", pk, sn.kind, slot)
}

/// literal value of a specified literal token = attr of the IntLit node that consists of it
fn literal_value(p: &Prog, i: usize) -> Option<String> {
    p.nodes.iter().find(|n| n.kind == "IntLit" && n.first == i && n.last == i).map(|n| n.attr.clone())
}

fn parse_literal(s: &str) -> Option<(u64, usize)> {
    // returns (value, bytes consumed)
    let b = s.as_bytes();
    if b.first() == Some(&b'\'') {
        if s.starts_with("'\\n'") {
            return Some((10, 4));
        }
        let mut it = s[1..].char_indices();
        let (_, c) = it.next()?;
        let (j, q) = it.next()?;
        if q == '\'' {
            return Some((c as u64, 1 + j + 1));
        }
        return None;
    }
    if s.starts_with("0x") || s.starts_with("0X") {
        let n = s[2..].bytes().take_while(|c| c.is_ascii_hexdigit()).count();
        if n == 0 {
            return None;
        }
        return u64::from_str_radix(&s[2..2 + n], 16).ok().map(|v| (v, 2 + n));
    }
    let n = s.bytes().take_while(|c| c.is_ascii_digit()).count();
    if n == 0 {
        return None;
    }
    s[..n].parse().ok().map(|v| (v, n))
}

pub struct Matched {
    pub comments: Vec<String>,            // trimmed comment texts in order
    pub tok_line: Vec<usize>,             // terminal i -> 0-based line of the output it starts on
    pub tok_col: Vec<usize>,              // terminal i -> byte column in its line
}

/// Lock-step matcher: walk `text`, skipping white space and collecting `//` lines, requiring the
/// spelling (literals: the value) of the next specified terminal.
pub fn lockstep(p: &Prog, text: &str) -> Result<Matched, String> {
    let mut pos = 0usize;
    let mut line = 0usize;
    let mut line_start = 0usize;
    let mut comments = Vec::new();
    let mut tok_line = Vec::new();
    let mut tok_col = Vec::new();
    let b = text.as_bytes();
    let mut i = 0usize;
    loop {
        // skip white space
        while pos < b.len() && (b[pos] == b' ' || b[pos] == b'\t' || b[pos] == b'\r' || b[pos] == b'\n') {
            if b[pos] == b'\n' {
                line += 1;
                line_start = pos + 1;
            }
            pos += 1;
        }
        if pos >= b.len() {
            break;
        }
        if text[pos..].starts_with("//") {
            let end = text[pos..].find('\n').map(|k| pos + k).unwrap_or(b.len());
            comments.push(text[pos + 2..end].trim().to_string());
            pos = end;
            continue;
        }
        if i >= p.toks.len() {
            return Err(format!("extra text after the last token: {:?}", &text[pos..(pos + 30).min(text.len())]));
        }
        let t = &p.toks[i];
        tok_line.push(line);
        tok_col.push(pos - line_start);
        if matches!(t.kind.as_str(), "Int" | "Hex" | "Char") && literal_value(p, i).as_deref() == Some("?") {
            // a character literal outside ASCII: the specification gives no value, the lexeme must survive as it is
            if text[pos..].starts_with(&t.spell) {
                pos += t.spell.len();
            } else {
                return Err(format!("token {i}: literal {:?} expected, found {:?}", t.spell, &text[pos..].chars().take(12).collect::<String>()));
            }
        } else if matches!(t.kind.as_str(), "Int" | "Hex" | "Char") {
            let want: u64 = literal_value(p, i).and_then(|v| v.parse().ok()).ok_or("literal without value")?;
            match parse_literal(&text[pos..]) {
                Some((v, n)) if v == want => pos += n,
                other => return Err(format!("token {i}: literal of value {want} expected, found {:?} ({:?})", &text[pos..(pos + 12).min(text.len())], other)),
            }
        } else if text[pos..].starts_with(&t.spell) {
            pos += t.spell.len();
        } else {
            return Err(format!("token {i}: {:?} expected, found {:?}", t.spell, &text[pos..(pos + 12).min(text.len())]));
        }
        i += 1;
    }
    if i < p.toks.len() {
        return Err(format!("text ends after {} of {} tokens (next expected {:?})", i, p.toks.len(), p.toks[i].spell));
    }
    Ok(Matched { comments, tok_line, tok_col })
}

/// nesting depth of every terminal under the formatter's documented line structure:
/// +1 inside a procedure body (variables, statements), +1 per enclosing block, +1 for a non-block
/// branch of if/while (an `if` directly after `else` continues the chain without nesting).
pub fn depths(p: &Prog) -> Vec<usize> {
    let mut d = vec![0usize; p.toks.len()];
    for (k, n) in p.nodes.iter().enumerate() {
        if n.last == usize::MAX || n.first > n.last {
            continue;
        }
        let Some(par) = n.parent else { continue };
        let pk = p.nodes[par].kind.as_str();
        let is_stmt = matches!(n.kind.as_str(), "Empty" | "Assign" | "Call" | "If" | "While" | "Block");
        let inc = match pk {
            "ProcDec" => n.kind == "VarDec" || is_stmt,
            "Block" => is_stmt,
            "If" | "While" => {
                if !is_stmt || n.kind == "Block" {
                    false
                } else {
                    // else-if chain: an If that is the else branch is not nested
                    let is_else_branch = pk == "If" && p.nodes[par].attr == "else" && {
                        let stmts: Vec<usize> = p.nodes.iter().enumerate().filter(|(_, m)| m.parent == Some(par) && matches!(m.kind.as_str(), "Empty" | "Assign" | "Call" | "If" | "While" | "Block")).map(|(i, _)| i).collect();
                        stmts.len() == 2 && stmts[1] == k
                    };
                    !(is_else_branch && n.kind == "If")
                }
            }
            _ => false,
        };
        if inc {
            for x in d.iter_mut().take(n.last + 1).skip(n.first) {
                *x += 1;
            }
        }
    }
    d
}

fn pos_json(p: Pos) -> Value {
    json!({"line": p.line, "character": p.col})
}

fn diag_messages(notes: &[Value], uri: &str) -> Option<Vec<String>> {
    let mut last = None;
    for n in notes {
        if n["method"] == "textDocument/publishDiagnostics" && n["params"]["uri"].as_str() == Some(uri) {
            let mut v: Vec<String> = n["params"]["diagnostics"].as_array().cloned().unwrap_or_default().iter().map(|d| d["message"].as_str().unwrap_or("").to_string()).collect();
            v.sort();
            last = Some(v);
        }
    }
    last
}

fn fail(prop: &str, what: &str, site: &str, mut detail: Value) -> Failure {
    detail["prop"] = json!(prop);
    Failure::new(&format!("{prop}:{what}"), site, detail)
}

pub fn run(cases: Vec<(String, Value)>, max_fail: usize, opts: &HashMap<String, String>) -> Summary {
    let exe = opts["exe"].clone();
    let layouts: Vec<String> = opts.get("layouts").map(|s| s.split(',').map(|x| x.to_string()).collect()).unwrap_or_else(|| LAYOUTS.iter().map(|s| s.to_string()).collect());
    let single_gaps: usize = opts.get("gaps").and_then(|s| s.parse().ok()).unwrap_or(0);
    let all_options = opts.get("alloptions").map(|s| s == "1").unwrap_or(true);
    let step = Duration::from_millis(opts.get("bound_ms").and_then(|s| s.parse().ok()).unwrap_or(20000));
    run_cases(cases, max_fail, move |_tag, case| {
        let mut out = Outcome::default();
        let mut p = parse_out(&case["out"]);
        distinct_literals(&mut p);
        let p = p;
        out.nontrivial = p.toks.len() >= 7;
        let n = p.toks.len();
        let mut names = layouts.clone();
        if single_gaps > 0 {
            let st = ((n + 1) / single_gaps.min(n + 1)).max(1);
            let mut g = 0;
            while g <= n {
                names.push(format!("cmt@{g}"));
                g += st;
            }
        }
        let mut live = Live::spawn(&exe, None);
        let init = live.request(1, "initialize", json!({"capabilities": {"textDocument": {"publishDiagnostics": {}}}}), step);
        if init.is_err() {
            out.failures.push(fail("C09", "no-answer", "", json!({"to": "initialize"})));
            return out;
        }
        live.notify("initialized", json!({}));
        let mut id = 1i64;
        let dep = depths(&p);
        let mut canon_texts: Vec<(String, String)> = Vec::new(); // (layout, formatted text) for comment-free layouts, default options
        'layouts: for (li, name) in names.iter().enumerate() {
            let l = layout(&p, name);
            let r = render(&p, &l);
            let uri = format!("file:///fmt{li}.spl");
            live.notes.clear();
            live.notify("textDocument/didOpen", json!({"textDocument": {"uri": uri, "languageId": "spl", "version": 1, "text": r.text}}));
            let option_sets: Vec<(bool, u32)> = if all_options && name == "canon" {
                let mut v: Vec<(bool, u32)> = (0..=8).map(|k| (true, k)).collect();
                v.push((false, 4));
                v
            } else {
                vec![(true, 4)]
            };
            let has_comments = l.gaps.iter().any(|g| !g.comments.is_empty());
            for (spaces, tab) in option_sets {
                id += 1;
                out.evals += 1;
                let ctx = json!({"layout": name, "text": r.text, "insertSpaces": spaces, "tabSize": tab});
                let resp = live.request(id, "textDocument/formatting",
                                        json!({"textDocument": {"uri": uri}, "options": {"tabSize": tab, "insertSpaces": spaces}}), step);
                let resp = match resp {
                    Ok(v) => v,
                    Err(why) => {
                        out.failures.push(fail("C09", "no-answer", "", json!({"ctx": ctx, "why": why})));
                        break 'layouts;
                    }
                };
                if resp.get("error").is_some() {
                    out.failures.push(fail("C09", "error-response", "", json!({"ctx": ctx, "got": resp})));
                    continue;
                }
                let result = &resp["result"];
                let formatted: String;
                if result.is_null() {
                    formatted = r.text.clone();
                } else {
                    let edits = result.as_array().cloned().unwrap_or_default();
                    if edits.len() != 1 {
                        out.failures.push(fail("C09", "edit-count", "", json!({"ctx": ctx, "got": result})));
                        continue;
                    }
                    let want_range = json!({"start": {"line": 0, "character": 0}, "end": pos_json(lspmodel::end_pos(&r.text))});
                    if edits[0]["range"] != want_range {
                        out.failures.push(fail("C09", "edit-range", "", json!({"ctx": ctx, "expected_range": want_range, "got_range": edits[0]["range"]})));
                    }
                    formatted = edits[0]["newText"].as_str().unwrap_or("").to_string();
                    // C11: null precisely when nothing would change
                    if formatted == r.text {
                        out.failures.push(fail("C11", "edit-without-change", "", json!({"ctx": ctx})));
                    }
                }
                // C09: token sequence preserved
                let m = match lockstep(&p, &formatted) {
                    Ok(m) => m,
                    Err(why) => {
                        out.failures.push(fail("C09", "tokens-changed", "", json!({"ctx": ctx, "why": why, "formatted": formatted})));
                        continue;
                    }
                };
                // C10: comments exactly once, same order, same (trimmed) text
                let want_comments: Vec<(String, usize)> = l.gaps.iter().enumerate().flat_map(|(g, gap)| gap.comments.iter().map(move |c| (c.trim().to_string(), g))).collect();
                let got = &m.comments;
                let mut gi = 0usize;
                for (c, g) in &want_comments {
                    // in-order matching: a comment is lost if it cannot be found at or after the cursor
                    match got[gi..].iter().position(|x| x == c) {
                        Some(k) => gi += k + 1,
                        None => {
                            let site = site_of_gap(&p, *g);
                            let what = if got.iter().any(|x| x == c) { "comment-out-of-order" } else { "comment-lost" };
                            out.failures.push(fail("C10", what, &site, json!({"ctx": ctx, "comment": c, "gap": g, "formatted": formatted})));
                        }
                    }
                }
                if got.len() > want_comments.len() || got.iter().any(|x| want_comments.iter().filter(|(c, _)| c == x).count() < got.iter().filter(|y| *y == x).count()) {
                    out.failures.push(fail("C10", "comment-duplicated-or-invented", "", json!({"ctx": ctx, "got_comments": got, "formatted": formatted})));
                }
                // C11: indentation = unit^depth for every line that starts with a specified token
                let unit: String = if spaces { " ".repeat(tab as usize) } else { "\t".to_string() };
                for (ln, line) in formatted.lines().enumerate() {
                    let lead: String = line.chars().take_while(|c| *c == ' ' || *c == '\t').collect();
                    if lead.len() == line.len() {
                        continue; // blank line
                    }
                    // first token on this line
                    let first_tok = m.tok_line.iter().position(|l| *l == ln);
                    let Some(ti) = first_tok else { continue }; // comment-only line
                    if m.tok_col[ti] != lead.len() {
                        continue; // the line starts with something else (cannot happen: comment lines have no tokens)
                    }
                    let mut d = dep[ti];
                    // parameters on their own lines count one level
                    if p.nodes.iter().any(|nd| nd.kind == "Param" && nd.first == ti) {
                        d = 1;
                    }
                    if lead != unit.repeat(d) {
                        out.failures.push(fail("C11", "indentation", "", json!({"ctx": ctx, "line": ln, "line_text": line, "expected_depth": d, "formatted": formatted})));
                        break;
                    }
                }
                if spaces && tab == 4 {
                    if !has_comments {
                        canon_texts.push((name.clone(), formatted.clone()));
                    }
                    // C09: same diagnostics; C11: idempotence — apply the edit, format again
                    let before = diag_messages(&live.notes, &uri);
                    if !result.is_null() {
                        live.notes.clear();
                        let e = &result[0];
                        live.notify("textDocument/didChange", json!({"textDocument": {"uri": uri, "version": 2},
                                     "contentChanges": [{"range": e["range"], "text": e["newText"]}]}));
                        id += 1;
                        let again = live.request(id, "textDocument/formatting",
                                                 json!({"textDocument": {"uri": uri}, "options": {"tabSize": tab, "insertSpaces": spaces}}), step);
                        match again {
                            Ok(v) => {
                                if !v["result"].is_null() {
                                    out.failures.push(fail("C11", "not-idempotent", "", json!({"ctx": ctx, "formatted": formatted, "second": v["result"]})));
                                }
                            }
                            Err(why) => {
                                out.failures.push(fail("C11", "no-answer", "", json!({"ctx": ctx, "why": why})));
                                break 'layouts;
                            }
                        }
                        let after = diag_messages(&live.notes, &uri);
                        if before.is_some() && after.is_some() && before != after {
                            out.failures.push(fail("C09", "diagnostics-changed", "", json!({"ctx": ctx, "before": before, "after": after, "formatted": formatted})));
                        }
                        // restore the original text for the folding request below
                        live.notify("textDocument/didChange", json!({"textDocument": {"uri": uri, "version": 3}, "contentChanges": [{"text": r.text}]}));
                    }
                }
            }
            // C17: folding ranges
            id += 1;
            match live.request(id, "textDocument/foldingRange", json!({"textDocument": {"uri": uri}}), step) {
                Err(why) => {
                    out.failures.push(fail("C17", "no-answer", "", json!({"layout": name, "text": r.text, "why": why})));
                    break 'layouts;
                }
                Ok(v) => {
                    let got: Vec<(u64, u64)> = v["result"].as_array().cloned().unwrap_or_default().iter()
                        .map(|f| (f["startLine"].as_u64().unwrap_or(u64::MAX), f["endLine"].as_u64().unwrap_or(u64::MAX))).collect();
                    let want: Vec<(u64, u64)> = p.nodes.iter().filter(|nd| nd.kind == "ProcDec").map(|nd| {
                        let s = r.lex[r.tok_index[nd.first]].start;
                        let e = r.lex[r.tok_index[nd.last]].end;
                        (lspmodel::pos_of(&r.text, s).line as u64, lspmodel::pos_of(&r.text, e).line as u64)
                    }).collect();
                    if got != want {
                        out.failures.push(fail("C17", "folding-ranges", "", json!({"layout": name, "text": r.text, "expected": want, "got": v["result"]})));
                    }
                    let last_line = lspmodel::end_pos(&r.text).line as u64;
                    let mut prev_end: Option<u64> = None;
                    let separable = want.windows(2).all(|w| w[0].1 < w[1].0);
                    for (s, e) in &got {
                        if s > e || *e > last_line || (separable && prev_end.map(|pe| pe >= *s).unwrap_or(false)) {
                            out.failures.push(fail("C17", "folding-malformed", "", json!({"layout": name, "text": r.text, "got": v["result"]})));
                            break;
                        }
                        prev_end = Some(*e);
                    }
                }
            }
            live.notify("textDocument/didClose", json!({"textDocument": {"uri": uri}}));
        }
        // C11: canonical form: layouts that differ only in white space format to the same text
        if let Some((n0, t0)) = canon_texts.first() {
            for (nm, t) in canon_texts.iter().skip(1) {
                if t != t0 {
                    out.failures.push(fail("C11", "not-canonical", "", json!({"layouts": [n0, nm], "a": t0, "b": t})));
                    break;
                }
            }
        }
        // C11: re-layouts of the FORMATTED text that change line ends only (CRLF everywhere, CRLF on the first line
        // only, no final line end): the token sequence is the same, so the canonical text is t0 and the answer is
        // an edit producing it, never null
        if let Some((_, t0)) = canon_texts.first().cloned() {
            let mut variants: Vec<(&str, String)> = vec![("formatted+crlf", t0.replace('\n', "\r\n")), ("formatted+crlf-first-line", t0.replacen('\n', "\r\n", 1)),
                                                        ("formatted-final-line-end", t0.trim_end_matches('\n').to_string())];
            variants.retain(|(_, v)| *v != t0);
            for (vi, (vname, vtext)) in variants.iter().enumerate() {
                let uri = format!("file:///fmtv{vi}.spl");
                live.notify("textDocument/didOpen", json!({"textDocument": {"uri": uri, "languageId": "spl", "version": 1, "text": vtext}}));
                id += 1;
                out.evals += 1;
                let ctx = json!({"layout": vname, "text": vtext, "insertSpaces": true, "tabSize": 4});
                match live.request(id, "textDocument/formatting", json!({"textDocument": {"uri": uri}, "options": {"tabSize": 4, "insertSpaces": true}}), step) {
                    Ok(v) => {
                        let edits = v["result"].as_array().cloned().unwrap_or_default();
                        let got = edits.first().and_then(|e| e["newText"].as_str()).map(|x| x.to_string());
                        if v.get("error").is_some() || edits.len() != 1 || got.as_deref() != Some(t0.as_str()) {
                            out.failures.push(fail("C11", "not-canonical", vname, json!({"ctx": ctx, "canonical": t0, "got": v.get("result")})));
                        }
                    }
                    Err(why) => {
                        out.failures.push(fail("C11", "no-answer", "", json!({"ctx": ctx, "why": why})));
                        break;
                    }
                }
                live.notify("textDocument/didClose", json!({"textDocument": {"uri": uri}}));
            }
        }
        let _ = live.finish(id + 1, step);
        out
    })
}
