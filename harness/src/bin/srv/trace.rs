//! mode `trace`: RECORD direction.  Runs scripts against the hooked binary
//! (cargo feature `verif`) with event tracing on and writes one merged,
//! normalised NDJSON trace (all sessions concatenated, `reset` events in
//! between) for TraceServer.tla.  Nothing is judged here.

use serde_json::{json, Value};
use std::collections::HashMap;
use std::io::Write;
use std::sync::{Arc, Mutex};
use vharness::lspclient::*;
use vharness::lspmodel;
use vharness::*;

fn ev(task: &str, name: &str) -> Value {
    json!({"task": task, "ev": name, "kind": "", "id": 0, "method": "", "uri": "", "found": false, "text": "",
           "inc": "na", "outcome": "", "code": 0})
}

fn norm_uri(u: &str) -> String {
    // the server logs URIs as parsed by the `url` crate (file:/a -> file:///a); undo for comparison
    u.replace("file:///", "file:/").replace("untitled:///", "untitled:/")
}

/// Expected text after each message, per the independent LSP text model.
pub fn expected_texts(msgs: &[Value]) -> Vec<String> {
    let mut docs: HashMap<String, Option<String>> = HashMap::new();
    let mut out = Vec::new();
    for m in msgs {
        let method = m["method"].as_str().unwrap_or("");
        let uri = m["params"]["textDocument"]["uri"].as_str().unwrap_or("").to_string();
        let t = match method {
            "textDocument/didOpen" => {
                let t = m["params"]["textDocument"]["text"].as_str().unwrap_or("").to_string();
                docs.insert(uri, Some(t.clone()));
                t
            }
            "textDocument/didChange" => match docs.get(&uri).cloned().flatten() {
                Some(mut cur) => {
                    for ch in m["params"]["contentChanges"].as_array().cloned().unwrap_or_default() {
                        let ins = ch["text"].as_str().unwrap_or("");
                        if ch.get("range").map(|r| !r.is_null()).unwrap_or(false) {
                            let p = |v: &Value| lspmodel::Pos { line: v["line"].as_u64().unwrap() as u32, col: v["character"].as_u64().unwrap() as u32 };
                            cur = lspmodel::apply_change(&cur, p(&ch["range"]["start"]), p(&ch["range"]["end"]), ins);
                        } else {
                            cur = ins.to_string();
                        }
                    }
                    docs.insert(uri, Some(cur.clone()));
                    cur
                }
                None => String::new(),
            },
            "textDocument/didClose" => {
                docs.insert(uri, None);
                String::new()
            }
            _ => String::new(),
        };
        out.push(t);
    }
    out
}

pub fn session_events(msgs: &[Value], frames: &[Value], server_events: &[Value]) -> Vec<Value> {
    let exp = expected_texts(msgs);
    let mut out = Vec::new();
    let mut method_of: HashMap<String, String> = HashMap::new();
    for (m, t) in msgs.iter().zip(exp.iter()) {
        let mut e = ev("D", "send");
        let is_req = m.get("id").is_some();
        e["kind"] = json!(if is_req { "req" } else { "note" });
        e["id"] = m.get("id").and_then(|i| i.as_i64()).map(Value::from).unwrap_or(json!(0));
        e["method"] = m["method"].clone();
        let uri = m["params"]["textDocument"]["uri"].as_str().or(m["params"]["uri"].as_str()).unwrap_or("");
        e["uri"] = json!(norm_uri(uri));
        e["text"] = json!(t);
        if is_req {
            method_of.insert(m["id"].to_string(), m["method"].as_str().unwrap_or("").to_string());
        }
        out.push(e);
    }
    for f in frames {
        let mut e = ev("D", "recv");
        if let Some(method) = f.get("method") {
            e["kind"] = json!("note");
            e["method"] = method.clone();
            e["uri"] = json!(norm_uri(f["params"]["uri"].as_str().unwrap_or("")));
        } else {
            e["kind"] = json!("resp");
            e["id"] = f.get("id").and_then(|i| i.as_i64()).map(Value::from).unwrap_or(json!(0));
            e["method"] = json!(method_of.get(&f["id"].to_string()).cloned().unwrap_or_default());
            if f.get("error").is_some() {
                e["outcome"] = json!("error");
                e["code"] = f["error"]["code"].clone();
            } else {
                e["outcome"] = json!("result");
                if let Some(s) = f["result"].as_str() {
                    e["text"] = json!(s);
                } else if e["method"] == "$/verif/text" && f["result"].is_null() {
                    e["text"] = json!("<no document>"); // TraceNoDoc: the document is not open
                }
            }
        }
        out.push(e);
    }
    for s in server_events {
        let task = s["task"].as_str().unwrap_or("?");
        let mut e = ev(task, s["ev"].as_str().unwrap_or("?"));
        for k in ["kind", "method", "outcome"] {
            if let Some(v) = s.get(k).and_then(|v| v.as_str()) {
                e[k] = json!(v);
            }
        }
        if let Some(i) = s.get("id").and_then(|v| v.as_i64()) {
            e["id"] = json!(i);
        }
        if let Some(c) = s.get("code").and_then(|v| v.as_i64()) {
            e["code"] = json!(c);
        }
        if let Some(u) = s.get("uri").and_then(|v| v.as_str()) {
            e["uri"] = json!(norm_uri(u));
        }
        if let Some(b) = s.get("found").and_then(|v| v.as_bool()) {
            e["found"] = json!(b);
        }
        if let Some(t) = s.get("text").and_then(|v| v.as_str()) {
            e["text"] = json!(t);
        }
        if let Some(b) = s.get("inc_eq_fresh").and_then(|v| v.as_bool()) {
            e["inc"] = json!(if b { "true" } else { "false" });
        }
        out.push(e);
    }
    for t in ["R", "B", "W", "D"] {
        out.push(ev(t, "reset"));
    }
    out
}

/// Run one concrete session against the hooked binary with tracing on; returns the normalised events.
pub fn record_session(exe: &str, msgs: &[Value], bound: std::time::Duration, tmp: &str) -> (Vec<Value>, RunResult) {
    let writes: Vec<Vec<u8>> = vec![msgs.iter().flat_map(frame).collect()]; // one burst
    let _ = std::fs::remove_file(tmp);
    let r = run_session(exe, &writes, None, bound, Some(tmp));
    let mut server_events = Vec::new();
    if let Ok(s) = std::fs::read_to_string(tmp) {
        for line in s.lines() {
            if let Ok(v) = serde_json::from_str::<Value>(line) {
                server_events.push(v);
            }
        }
    }
    let _ = std::fs::remove_file(tmp);
    (session_events(msgs, &r.frames, &server_events), r)
}

pub fn run(cases: Vec<(String, Value)>, out_path: &str, opts: &HashMap<String, String>) -> Summary {
    let o = Arc::new(super::script::parse_opts(opts));
    let file = Arc::new(Mutex::new(std::io::BufWriter::new(std::fs::File::create(out_path).unwrap_or_else(|e| {
        eprintln!("cannot create {out_path}: {e}");
        std::process::exit(2)
    }))));
    let tmpdir = opts.get("tmp").cloned().unwrap_or_else(|| "/verif/out".into());
    let f2 = file.clone();
    let s = run_cases(cases, 10, move |_tag, case| {
        let mut out = Outcome::default();
        let script = case["script"].as_array().cloned().unwrap_or_default();
        let diagcap = case["diagcap"].as_bool().unwrap_or(true);
        let startmain = case["startmain"].as_bool().unwrap_or(false);
        let mut conc = super::script::concretise_script(&script, diagcap, startmain, true);
        // end every traced session gracefully
        let last_is_exit = script.last().map(|m| m["t"] == "exit").unwrap_or(false);
        if !last_is_exit {
            conc.msgs.push(json!({"jsonrpc": "2.0", "id": 2000001, "method": "shutdown", "params": null}));
            conc.msgs.push(json!({"jsonrpc": "2.0", "method": "exit", "params": null}));
        }
        let tmp = format!("{}/trace_{}_{:x}.ndjson", tmpdir, std::process::id(), fxhash(case.to_string().as_bytes()));
        let (events, _r) = record_session(&o.exe, &conc.msgs, o.bound, &tmp);
        out.evals = 1;
        out.nontrivial = script.len() >= 2;
        out.counters.push(("events".into(), events.len()));
        let mut f = f2.lock().unwrap();
        for e in events {
            writeln!(f, "{}", e).unwrap();
        }
        out
    });
    file.lock().unwrap().flush().unwrap();
    s
}
