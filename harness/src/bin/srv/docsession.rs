//! modes `docsession` and `roundtrip` (C08).
//!
//! docsession: SESSION cases of MC_LspDocSession (initial text, notifications
//! with 1-3 changes, the text the client holds after each): didOpen, then per
//! notification didChange + `$/verif/text`; every answer must equal the
//! specified text.  With trace_out= the run is recorded through the hooks for
//! TraceServer.
//!
//! roundtrip: lexer CASE lines (text + specified tokens): for every identifier
//! token, prepareRename at its first, middle and last character must return
//! the token's extent as an LSP range (independent position model), and that
//! range's start sent back must address the same token.

use serde_json::{json, Value};
use std::collections::HashMap;
use std::io::Write;
use std::sync::{Arc, Mutex};
use std::time::Duration;
use vharness::lspclient::*;
use vharness::lspmodel::{self, Pos};
use vharness::*;

fn change_json(c: &Value) -> Value {
    let ins = concretise(&c["ins"]);
    if c["full"].as_bool().unwrap_or(false) {
        json!({"text": ins})
    } else {
        json!({"range": {"start": {"line": c["sl"], "character": c["sc"]}, "end": {"line": c["el"], "character": c["ec"]}}, "text": ins})
    }
}

pub fn run_sessions(cases: Vec<(String, Value)>, max_fail: usize, opts: &HashMap<String, String>) -> Summary {
    let exe = opts["exe"].clone();
    let bound = Duration::from_millis(opts.get("bound_ms").and_then(|s| s.parse().ok()).unwrap_or(60000));
    let trace_out = opts.get("trace_out").cloned();
    let tmpdir = opts.get("tmp").cloned().unwrap_or_else(|| "/verif/out".into());
    let tfile = trace_out.map(|p| Arc::new(Mutex::new(std::io::BufWriter::new(std::fs::File::create(p).expect("trace_out")))));
    let tf2 = tfile.clone();
    let s = run_cases(cases, max_fail, move |_tag, case| {
        let mut out = Outcome::default();
        let uri = "file:///session.spl";
        let init = concretise(&case["init"]);
        let notes = case["notes"].as_array().cloned().unwrap_or_default();
        out.nontrivial = notes.len() >= 2;
        let mut msgs: Vec<Value> = vec![
            json!({"jsonrpc": "2.0", "id": 1000001, "method": "initialize", "params": {"capabilities": {"textDocument": {"publishDiagnostics": {}}}}}),
            json!({"jsonrpc": "2.0", "method": "initialized", "params": {}}),
            json!({"jsonrpc": "2.0", "method": "textDocument/didOpen", "params": {"textDocument": {"uri": uri, "languageId": "spl", "version": 1, "text": init}}}),
        ];
        for (k, n) in notes.iter().enumerate() {
            msgs.push(json!({"jsonrpc": "2.0", "method": "textDocument/didChange",
                             "params": {"textDocument": {"uri": uri, "version": k + 2},
                                        "contentChanges": n["changes"].as_array().unwrap().iter().map(change_json).collect::<Vec<_>>()}}));
            msgs.push(json!({"jsonrpc": "2.0", "id": k + 1, "method": "$/verif/text", "params": {"uri": uri}}));
        }
        msgs.push(json!({"jsonrpc": "2.0", "id": 2000001, "method": "shutdown", "params": null}));
        msgs.push(json!({"jsonrpc": "2.0", "method": "exit", "params": null}));
        let r = if let Some(tf) = &tf2 {
            let tmp = format!("{}/trace_{}_{:x}.ndjson", tmpdir, std::process::id(), fxhash(case.to_string().as_bytes()));
            let (events, r) = super::trace::record_session(&exe, &msgs, bound, &tmp);
            let mut f = tf.lock().unwrap();
            for e in events {
                writeln!(f, "{}", e).unwrap();
            }
            r
        } else {
            let bytes: Vec<u8> = msgs.iter().flat_map(frame).collect();
            run_session(&exe, &[bytes], None, bound, None)
        };
        out.evals = notes.len();
        if let Some(e) = &r.frame_error {
            out.failures.push(Failure::new("frame-malformed", "", json!({"why": e})));
        }
        let mut by_id: HashMap<u64, &Value> = HashMap::new();
        for f in &r.frames {
            if f.get("method").is_none() {
                if let Some(i) = f["id"].as_u64() {
                    by_id.insert(i, f);
                }
            }
        }
        for (k, n) in notes.iter().enumerate() {
            let want = concretise(&n["expect"]);
            match by_id.get(&((k + 1) as u64)) {
                None => {
                    out.failures.push(Failure::new("no-answer", "", json!({"step": k, "exit": r.exit, "timed_out": r.timed_out})));
                    break;
                }
                Some(f) => {
                    if f["result"].as_str() != Some(want.as_str()) {
                        out.failures.push(Failure::new(
                            "text-differs",
                            "",
                            json!({"step": k, "changes": n["changes"].as_array().unwrap().iter().map(change_json).collect::<Vec<_>>(),
                                   "expected": want, "got": f.get("result"), "error": f.get("error")}),
                        ));
                        break;
                    }
                }
            }
        }
        out
    });
    if let Some(tf) = tfile {
        tf.lock().unwrap().flush().unwrap();
    }
    s
}

fn pos_json(p: Pos) -> Value {
    json!({"line": p.line, "character": p.col})
}

pub fn run_roundtrip(cases: Vec<(String, Value)>, max_fail: usize, opts: &HashMap<String, String>) -> Summary {
    let exe = opts["exe"].clone();
    let bound = Duration::from_millis(opts.get("bound_ms").and_then(|s| s.parse().ok()).unwrap_or(60000));
    run_cases(cases, max_fail, move |_tag, case| {
        let mut out = Outcome::default();
        let text = concretise(&case["text"]);
        let toks = case["toks"].as_array().cloned().unwrap_or_default();
        let idents: Vec<(usize, usize)> = toks
            .iter()
            .filter(|t| t["k"] == "Ident" && concretise(&t["s"]) != "int")
            .map(|t| (t["b"].as_u64().unwrap() as usize, t["e"].as_u64().unwrap() as usize))
            .collect();
        if idents.is_empty() {
            return out;
        }
        out.nontrivial = text.chars().any(|c| c.len_utf8() > 1) || text.contains('\r');
        let mut live = Live::spawn(&exe, None);
        let uri = "file:///rt.spl";
        let step = Duration::from_millis(20000).min(bound);
        if live.request(1, "initialize", json!({"capabilities": {}}), step).is_err() {
            out.failures.push(Failure::new("no-answer", "", json!({"to": "initialize"})));
            return out;
        }
        live.notify("initialized", json!({}));
        live.notify("textDocument/didOpen", json!({"textDocument": {"uri": uri, "languageId": "spl", "version": 1, "text": text}}));
        let mut id = 2;
        'outer: for (b, e) in idents {
            let want = json!({"start": pos_json(lspmodel::pos_of(&text, b)), "end": pos_json(lspmodel::pos_of(&text, e))});
            // cursor offsets: first character, a middle one, the last one
            let mut offs = vec![b];
            let mid = b + (e - b) / 2;
            if text.is_char_boundary(mid) {
                offs.push(mid);
            }
            offs.push(e - 1);
            offs.dedup();
            for o in offs {
                let p = lspmodel::pos_of(&text, o);
                id += 1;
                out.evals += 1;
                match live.request(id, "textDocument/prepareRename", json!({"textDocument": {"uri": uri}, "position": pos_json(p)}), step) {
                    Err(why) => {
                        out.failures.push(Failure::new("no-answer", "", json!({"text": text, "position": pos_json(p), "why": why})));
                        break 'outer;
                    }
                    Ok(resp) => {
                        if resp.get("result") != Some(&want) {
                            out.failures.push(Failure::new(
                                "range-differs",
                                "",
                                json!({"text": text, "token_bytes": [b, e], "position": pos_json(p), "expected": want, "got": resp}),
                            ));
                            break 'outer;
                        }
                        // send the reported start back: same token
                        id += 1;
                        let back = live.request(id, "textDocument/prepareRename",
                                                json!({"textDocument": {"uri": uri}, "position": resp["result"]["start"]}), step);
                        match back {
                            Ok(r2) if r2.get("result") == Some(&want) => {}
                            other => {
                                out.failures.push(Failure::new(
                                    "roundtrip-differs",
                                    "",
                                    json!({"text": text, "token_bytes": [b, e], "expected": want, "got": format!("{:?}", other)}),
                                ));
                                break 'outer;
                            }
                        }
                    }
                }
            }
        }
        let _ = live.finish(id + 1, step);
        out
    })
}
