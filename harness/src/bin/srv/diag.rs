//! mode `diag` (C03, server level): typed programs opened in the real server;
//! the published diagnostics of a valid program must be empty, a faulty
//! program's must be non-empty, and every published range must lie inside the
//! document (independent position model).

use serde_json::{json, Value};
use std::collections::HashMap;
use std::time::Duration;
use vharness::lspclient::*;
use vharness::lspmodel::{self, Pos};
use vharness::prog::*;
use vharness::*;

pub fn run(cases: Vec<(String, Value)>, max_fail: usize, opts: &HashMap<String, String>) -> Summary {
    let exe = opts["exe"].clone();
    let step = Duration::from_millis(opts.get("bound_ms").and_then(|s| s.parse().ok()).unwrap_or(20000));
    run_cases(cases, max_fail, move |_tag, case| {
        let mut out = Outcome::default();
        let mut p = parse_out(&case["out"]);
        // literals from the pool: non-ASCII characters in front of the culprit on the same line (UTF-16 columns)
        distinct_literals(&mut p);
        let p = p;
        let fault = case["fault"].as_str().unwrap_or("none").to_string();
        out.nontrivial = p.toks.len() >= 9;
        let mut live = Live::spawn(&exe, None);
        if live.request(1, "initialize", json!({"capabilities": {"textDocument": {"publishDiagnostics": {}}}}), step).is_err() {
            out.failures.push(Failure::new("no-answer", "", json!({"to": "initialize"})));
            return out;
        }
        live.notify("initialized", json!({}));
        let mut id = 1;
        for (li, name) in ["canon", "crlf", "cr", "cmtall", "cmtuni"].iter().enumerate() {
            let r = render(&p, &layout(&p, name));
            let uri = format!("file:///d{li}.spl");
            live.notes.clear();
            live.notify("textDocument/didOpen", json!({"textDocument": {"uri": uri, "languageId": "spl", "version": 1, "text": r.text}}));
            id += 1;
            out.evals += 1;
            // sentinel: answered by the broker after it published the diagnostics of the didOpen
            if let Err(why) = live.request(id, "textDocument/foldingRange", json!({"textDocument": {"uri": uri}}), step) {
                out.failures.push(Failure::new("no-answer", &fault, json!({"text": r.text, "why": why})));
                break;
            }
            let pubs: Vec<&Value> = live.notes.iter().filter(|n| n["method"] == "textDocument/publishDiagnostics" && n["params"]["uri"] == uri.as_str()).collect();
            if pubs.len() != 1 {
                out.failures.push(Failure::new("publish-count", &fault, json!({"text": r.text, "count": pubs.len()})));
                continue;
            }
            let ds = pubs[0]["params"]["diagnostics"].as_array().cloned().unwrap_or_default();
            if fault == "none" && !ds.is_empty() {
                out.failures.push(Failure::new("diagnostic-on-valid-program", "", json!({"layout": name, "text": r.text, "diagnostics": ds})));
            }
            if fault != "none" && ds.is_empty() {
                out.failures.push(Failure::new("rule-not-reported", &fault, json!({"layout": name, "text": r.text})));
            }
            // the published ranges are the byte ranges of the analysis under the LSP position rules (UTF-16 columns,
            // CR / LF / CRLF line ends): same multiset of (range, message) as the in-process analysis converted by the
            // independent position model
            let t = r.text.clone();
            if let Ok(errs) = guard(std::panic::AssertUnwindSafe(move || spl_frontend::ErrorContainer::errors(&spl_frontend::AnalyzedSource::new(t)))) {
                let conv = |o: usize| { let q = lspmodel::pos_of(&r.text, o.min(r.text.len())); json!({"line": q.line, "character": q.col}) };
                let mut want: Vec<String> = errs.iter().map(|e| json!({"range": {"start": conv(e.0.start), "end": conv(e.0.end)}, "message": e.1.to_string()}).to_string()).collect();
                let mut got: Vec<String> = ds.iter().map(|d| json!({"range": {"start": {"line": d["range"]["start"]["line"], "character": d["range"]["start"]["character"]},
                                                                               "end": {"line": d["range"]["end"]["line"], "character": d["range"]["end"]["character"]}},
                                                                     "message": d["message"]}).to_string()).collect();
                want.sort();
                got.sort();
                if want != got {
                    out.failures.push(Failure::new("published-differs-from-analysis", &fault, json!({"layout": name, "text": r.text, "expected": want, "got": got})));
                }
            }
            let end = lspmodel::end_pos(&r.text);
            for d in &ds {
                let g = |v: &Value| Pos { line: v["line"].as_u64().unwrap_or(u64::MAX) as u32, col: v["character"].as_u64().unwrap_or(u64::MAX) as u32 };
                let (s, e) = (g(&d["range"]["start"]), g(&d["range"]["end"]));
                // inside the document: the positions denote offsets of the text and are not beyond their lines
                let inside = |q: Pos| q <= end && lspmodel::pos_of(&r.text, lspmodel::offset_of(&r.text, q)) == q;
                if s > e || !inside(s) || !inside(e) {
                    out.failures.push(Failure::new("range-outside-document", &fault, json!({"layout": name, "text": r.text, "diagnostic": d})));
                    break;
                }
            }
        }
        let _ = live.finish(id + 1, step);
        out
    })
}
