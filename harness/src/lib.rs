//! Conformance harness shared code: case I/O (TLC output -> JSON cases),
//! concretiser (abstract character names -> UTF-8 text), parallel map,
//! result files.  Deliberately dumb: no SPL knowledge lives here.

use serde_json::{json, Value};
use std::collections::HashSet;
use std::io::{BufRead, BufReader};
use std::sync::atomic::{AtomicUsize, Ordering};
use std::sync::{Arc, Mutex};

pub mod lspclient;
pub mod lspmodel;
pub mod prog;

/// Concretise one abstract character name.
pub fn concretise_char(name: &str) -> &str {
    match name {
        "U2" => "\u{142}",
        "U3" => "\u{20AC}",
        "U4" => "\u{1F600}",
        other => other,
    }
}

/// Concretise a JSON array of character names into a string.
pub fn concretise(v: &Value) -> String {
    let mut s = String::new();
    if let Some(a) = v.as_array() {
        for c in a {
            s.push_str(concretise_char(c.as_str().unwrap_or("")));
        }
    } else if let Some(t) = v.as_str() {
        s.push_str(t);
    }
    s
}

/// Undo TLC's string escaping (`\"` and `\\`) of a printed TLA+ string body.
fn tla_unescape(s: &str) -> String {
    let mut out = String::with_capacity(s.len());
    let mut it = s.chars();
    while let Some(c) = it.next() {
        if c == '\\' {
            if let Some(n) = it.next() {
                out.push(n);
            }
        } else {
            out.push(c);
        }
    }
    out
}

/// Read cases from a file that is either raw TLC output (lines
/// `<<"TAG", "json">>`), or NDJSON, or a single JSON document with a `case`
/// member (a replay file).  Duplicated lines (TLC simulation prints a
/// completed state more than once) are dropped.  Returns (tag, case).
pub fn read_cases(path: &str) -> Vec<(String, Value)> {
    let f = std::fs::File::open(path).unwrap_or_else(|e| {
        eprintln!("cannot open {path}: {e}");
        std::process::exit(2)
    });
    let mut seen: HashSet<u64> = HashSet::new();
    let mut out = Vec::new();
    for line in BufReader::new(f).lines() {
        let line = match line {
            Ok(l) => l,
            Err(_) => continue,
        };
        if let Some(rest) = line.strip_prefix("<<\"") {
            // <<"TAG", "....">>
            if let Some(q) = rest.find("\", \"") {
                let tag = &rest[..q];
                let body = &rest[q + 4..];
                if let Some(body) = body.strip_suffix("\">>") {
                    let h = fxhash(body.as_bytes());
                    if !seen.insert(h) {
                        continue;
                    }
                    let js = tla_unescape(body);
                    match serde_json::from_str::<Value>(&js) {
                        Ok(v) => out.push((tag.to_string(), v)),
                        Err(e) => {
                            eprintln!("bad case json: {e}: {js}");
                            std::process::exit(2);
                        }
                    }
                }
            }
        } else if line.starts_with('{') {
            let h = fxhash(line.as_bytes());
            if !seen.insert(h) {
                continue;
            }
            if let Ok(v) = serde_json::from_str::<Value>(&line) {
                if let Some(c) = v.get("case") {
                    let tag = v.get("tag").and_then(|t| t.as_str()).unwrap_or("CASE");
                    out.push((tag.to_string(), c.clone()));
                } else {
                    out.push(("CASE".to_string(), v));
                }
            }
        }
    }
    out
}

pub fn fxhash(b: &[u8]) -> u64 {
    // FNV-1a 64
    let mut h: u64 = 0xcbf29ce484222325;
    for x in b {
        h ^= *x as u64;
        h = h.wrapping_mul(0x100000001b3);
    }
    h
}

/// One reported failure of a case.
#[derive(Clone, Debug)]
pub struct Failure {
    pub what: String,   // short class, e.g. "tokens-differ"
    pub site: String,   // signature used for known-finding matching (may be empty)
    pub detail: Value,  // free form
}

impl Failure {
    pub fn new(what: &str, site: &str, detail: Value) -> Self {
        Self {
            what: what.to_string(),
            site: site.to_string(),
            detail,
        }
    }
}

/// Outcome of one case.
#[derive(Default)]
pub struct Outcome {
    pub failures: Vec<Failure>,
    pub nontrivial: bool,
    pub evals: usize,          // number of implementation executions compared
    pub counters: Vec<(String, usize)>,
}

pub struct Summary {
    pub cases: usize,
    pub evals: usize,
    pub nontrivial: usize,
    pub failures: Vec<Value>,
    pub nfail: usize,
    pub counters: std::collections::BTreeMap<String, usize>,
    pub samples: Vec<Value>,
}

pub fn nthreads() -> usize {
    std::env::var("VERIF_THREADS")
        .ok()
        .and_then(|s| s.parse().ok())
        .unwrap_or_else(|| {
            std::thread::available_parallelism()
                .map(|n| n.get())
                .unwrap_or(4)
        })
}

/// Run `f` over all cases in parallel; collect a summary.  Panics inside `f`
/// are NOT caught here: `f` must wrap implementation calls in `guard`.
pub fn run_cases<F>(cases: Vec<(String, Value)>, max_fail: usize, f: F) -> Summary
where
    F: Fn(&str, &Value) -> Outcome + Send + Sync + 'static,
{
    let n = cases.len();
    let cases = Arc::new(cases);
    let next = Arc::new(AtomicUsize::new(0));
    let f = Arc::new(f);
    let acc = Arc::new(Mutex::new(Summary {
        cases: n,
        evals: 0,
        nontrivial: 0,
        failures: Vec::new(),
        nfail: 0,
        counters: Default::default(),
        samples: Vec::new(),
    }));
    let mut hs = Vec::new();
    for _ in 0..nthreads().max(1) {
        let cases = cases.clone();
        let next = next.clone();
        let f = f.clone();
        let acc = acc.clone();
        hs.push(
            std::thread::Builder::new()
                .stack_size(256 << 20)
                .spawn(move || {
                    let mut evals = 0usize;
                    let mut nontrivial = 0usize;
                    let mut fails: Vec<Value> = Vec::new();
                    let mut nfail = 0usize;
                    let mut counters: std::collections::BTreeMap<String, usize> = Default::default();
                    let mut samples: Vec<Value> = Vec::new();
                    let mut class_n: std::collections::HashMap<String, usize> = Default::default();
                    loop {
                        let i = next.fetch_add(1, Ordering::Relaxed);
                        if i >= cases.len() {
                            break;
                        }
                        let (tag, case) = &cases[i];
                        let o = f(tag, case);
                        evals += o.evals;
                        if o.nontrivial {
                            nontrivial += 1;
                        }
                        for (k, v) in o.counters {
                            *counters.entry(k).or_insert(0) += v;
                        }
                        if samples.len() < 2 && o.nontrivial && (i % 97 == 0 || i < 3) {
                            samples.push(case.clone());
                        }
                        for fl in o.failures {
                            nfail += 1;
                            // cap per failure class (what|site), so that a frequent (known) class
                            // cannot crowd out a rare one
                            let cls = format!("{}|{}", fl.what, fl.site);
                            let n = class_n.entry(cls.clone()).or_insert(0);
                            *n += 1;
                            *counters.entry(format!("class:{cls}")).or_insert(0) += 1;
                            if *n <= max_fail {
                                fails.push(json!({"index": i, "tag": tag, "what": fl.what, "site": fl.site,
                                                  "detail": fl.detail, "case": case}));
                            }
                        }
                    }
                    let mut a = acc.lock().unwrap();
                    a.evals += evals;
                    a.nontrivial += nontrivial;
                    a.nfail += nfail;
                    for (k, v) in counters {
                        *a.counters.entry(k).or_insert(0) += v;
                    }
                    for s in samples {
                        if a.samples.len() < 3 {
                            a.samples.push(s);
                        }
                    }
                    for fl in fails {
                        if a.failures.len() < max_fail * 40 {
                            a.failures.push(fl);
                        }
                    }
                })
                .unwrap(),
        );
    }
    for h in hs {
        h.join().unwrap();
    }
    let mut s = Arc::try_unwrap(acc).ok().unwrap().into_inner().unwrap();
    s.failures
        .sort_by_key(|f| f.get("index").and_then(|i| i.as_u64()).unwrap_or(0));
    s
}

pub fn write_summary(path: &str, mode: &str, s: &Summary) {
    let v = json!({
        "mode": mode,
        "cases": s.cases,
        "evaluations": s.evals,
        "nontrivial": s.nontrivial,
        "nfail": s.nfail,
        "failures": s.failures,
        "counters": s.counters,
        "samples": s.samples,
    });
    std::fs::write(path, serde_json::to_vec(&v).unwrap()).unwrap_or_else(|e| {
        eprintln!("cannot write {path}: {e}");
        std::process::exit(2)
    });
}

/// Run an implementation call, turning a panic into Err(message).
pub fn guard<T, F: FnOnce() -> T + std::panic::UnwindSafe>(f: F) -> Result<T, String> {
    match std::panic::catch_unwind(f) {
        Ok(v) => Ok(v),
        Err(e) => {
            let msg = if let Some(s) = e.downcast_ref::<&str>() {
                s.to_string()
            } else if let Some(s) = e.downcast_ref::<String>() {
                s.clone()
            } else {
                "panic".to_string()
            };
            Err(msg)
        }
    }
}

pub fn silence_panics() {
    std::panic::set_hook(Box::new(|_| {}));
}

/// xorshift64* PRNG (no external crate needed; seeded from VERIF_SEED).
pub struct Rng(pub u64);
impl Rng {
    pub fn new(seed: u64) -> Self {
        Rng(seed.wrapping_mul(0x9E3779B97F4A7C15) | 1)
    }
    pub fn next(&mut self) -> u64 {
        let mut x = self.0;
        x ^= x >> 12;
        x ^= x << 25;
        x ^= x >> 27;
        self.0 = x;
        x.wrapping_mul(0x2545F4914F6CDD1D)
    }
    pub fn below(&mut self, n: usize) -> usize {
        (self.next() % (n as u64)) as usize
    }
    pub fn pick<'a, T>(&mut self, v: &'a [T]) -> &'a T {
        &v[self.below(v.len())]
    }
}

/// Name of a concrete character in the specification's vocabulary.
pub fn char_name(c: char) -> Option<String> {
    match c {
        '\u{142}' => Some("U2".into()),
        '\u{20AC}' => Some("U3".into()),
        '\u{1F600}' => Some("U4".into()),
        c if c.is_ascii() => Some(c.to_string()),
        _ => None,
    }
}
