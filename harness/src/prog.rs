//! Programs as emitted by the SplGrammar / SplStatic derivation machines:
//! terminals interleaved with open/close brackets (the mandated tree), plus
//! layouts (what is written in the gaps between terminals) and the node
//! extent rule.  No parsing of SPL happens here.

use serde_json::Value;

#[derive(Clone, Debug, PartialEq)]
pub struct Tok {
    pub kind: String,
    pub spell: String,
    /// extra fields of typed programs (SplStatic): binding id, role, ... (raw strings after the spelling)
    pub extra: Vec<String>,
}

#[derive(Clone, Debug, PartialEq)]
pub struct Node {
    pub kind: String,
    pub attr: String,
    pub first: usize, // index of first terminal (in the terminal list)
    pub last: usize,  // index of last terminal (inclusive); first > last for an empty node
    pub depth: usize, // bracket nesting depth
    pub parent: Option<usize>,
}

#[derive(Clone, Debug)]
pub struct Prog {
    pub toks: Vec<Tok>,
    pub nodes: Vec<Node>, // preorder
}

/// Parse the compact `out` array: "t Kind spelling [extra..]" | "o NodeKind attr" | "c".
pub fn parse_out(out: &Value) -> Prog {
    let mut toks = Vec::new();
    let mut nodes: Vec<Node> = Vec::new();
    let mut stack: Vec<usize> = Vec::new();
    for item in out.as_array().expect("out must be an array") {
        let s = item.as_str().expect("out items must be strings");
        let mut parts = s.splitn(3, ' ');
        match parts.next() {
            Some("t") => {
                let kind = parts.next().unwrap_or("").to_string();
                let rest = parts.next().unwrap_or("");
                let mut f = rest.split('|');
                let spell = f.next().unwrap_or("").to_string();
                let extra: Vec<String> = f.map(|x| x.to_string()).collect();
                toks.push(Tok { kind, spell, extra });
            }
            Some("o") => {
                let kind = parts.next().unwrap_or("").to_string();
                let attr = parts.next().unwrap_or("").to_string();
                nodes.push(Node { kind, attr, first: toks.len(), last: 0, depth: stack.len(), parent: stack.last().cloned() });
                stack.push(nodes.len() - 1);
            }
            Some("c") => {
                let i = stack.pop().expect("unbalanced close");
                nodes[i].last = toks.len().wrapping_sub(1);
                if toks.len() == nodes[i].first {
                    // empty node
                    nodes[i].last = nodes[i].first.wrapping_sub(1);
                }
            }
            _ => panic!("bad out item {s:?}"),
        }
    }
    Prog { toks, nodes }
}

/// Literal relabelling.  The exhaustive configurations of SplGrammar run with `IntLits = {1}` (the literal
/// alphabet multiplies the number of derivations without adding structure); here the literals of a program
/// are re-spelled so that (a) no two literals of a program are equal and (b) over the programs of a run every
/// class of literal lexeme of SplLexer occurs: decimals (also with leading zeros), hexadecimals, plain
/// character literals, the `\n` escape, quote / tick / backslash, a blank, 2-, 3- and 4-byte characters.
/// The result is a program of the same derivation machine with a larger `IntLits`; the `IntLit` node gets the
/// value the lexical grammar gives the lexeme.  Array sizes stay decimal (the grammar's restriction).
/// Character literals outside Latin-1 get the value `?` (SPL's characters are ASCII; the specification
/// gives them no value, their spelling must still survive formatting).
/// With one spelling for all literals a formatter or parser that prints / reads a literal from the wrong
/// place, or re-spells it, would go unnoticed.
pub const LITERAL_POOL: &[(&str, &str, &str)] = &[
    ("Int", "1", "1"), ("Char", "'a'", "97"), ("Hex", "0x1F", "31"), ("Char", "'\\n'", "10"), ("Int", "007", "7"), ("Char", "'\"'", "34"),
    ("Int", "2", "2"), ("Char", "'''", "39"), ("Hex", "0x0a", "10"), ("Char", "'\\'", "92"), ("Char", "'\u{e4}'", "228"), ("Int", "3", "3"),
    ("Char", "'\u{20ac}'", "?"), ("Char", "' '", "32"), ("Char", "'\u{1f600}'", "?"), ("Int", "40", "40"),
];

pub fn distinct_literals(p: &mut Prog) {
    // start of the walk through the pool: a hash of the program, so that the programs of a run spread over it
    let mut h: u32 = 2166136261;
    for t in &p.toks {
        for b in t.spell.bytes() {
            h = (h ^ b as u32).wrapping_mul(16777619);
        }
        h = (h ^ 32).wrapping_mul(16777619);
    }
    let mut k = 0usize; // decimal counter for array sizes
    let mut e = (h as usize) % LITERAL_POOL.len(); // pool cursor for expression literals
    let mut used: Vec<&str> = Vec::new();
    for i in 0..p.toks.len() {
        if !(p.toks[i].kind == "Int" && p.toks[i].spell == "1") {
            continue;
        }
        let node = p.nodes.iter().position(|n| n.kind == "IntLit" && n.first == i && n.last == i && n.attr == "1");
        let in_array_size = node.and_then(|n| p.nodes[n].parent).map(|q| p.nodes[q].kind == "ArrayType").unwrap_or(true);
        let (kind, spell, value): (String, String, String) = if in_array_size || node.is_none() {
            k += 1;
            ("Int".into(), k.to_string(), k.to_string())
        } else {
            // next pool entry not used in this program yet (all used: decimals beyond the pool)
            let mut tries = 0;
            while used.contains(&LITERAL_POOL[e].1) && tries < LITERAL_POOL.len() {
                e = (e + 1) % LITERAL_POOL.len();
                tries += 1;
            }
            if tries == LITERAL_POOL.len() {
                k += 1;
                let v = (100 + k).to_string();
                ("Int".into(), v.clone(), v)
            } else {
                used.push(LITERAL_POOL[e].1);
                let x = LITERAL_POOL[e];
                e = (e + 1) % LITERAL_POOL.len();
                (x.0.into(), x.1.into(), x.2.into())
            }
        };
        if let Some(n) = node {
            p.nodes[n].attr = value;
        }
        p.toks[i].kind = kind;
        p.toks[i].spell = spell;
    }
}

/// What stands in the gap before a terminal (and after the last one).
#[derive(Clone, Debug, Default)]
pub struct Gap {
    pub comments: Vec<String>, // comment texts; each is rendered as its own line `//<text>\n`
    pub pre: String,           // white space before the comments
    pub post: String,          // white space after the comments (before the terminal)
}

#[derive(Clone, Debug)]
pub struct Layout {
    pub name: String,
    pub gaps: Vec<Gap>, // toks.len() + 1 gaps
}

fn wordlike(c: char) -> bool {
    c.is_ascii_alphanumeric() || c == '_' || c == '\''
}

/// Must two adjacent spellings be separated to remain two lexemes?  (conservative)
pub fn needs_sep(a: &str, b: &str) -> bool {
    let (Some(x), Some(y)) = (a.chars().last(), b.chars().next()) else {
        return false;
    };
    if wordlike(x) && wordlike(y) {
        return true;
    }
    matches!((x, y), ('<', '=') | ('>', '=') | (':', '=') | ('/', '/'))
}

pub const LAYOUTS: &[&str] = &["canon", "min", "nl", "crlf", "cr", "tab", "cmtall"];

/// Build a named layout for a program.  `cmt@<g>` puts one comment line into gap g.
pub fn layout(p: &Prog, name: &str) -> Layout {
    let n = p.toks.len();
    let mut gaps: Vec<Gap> = vec![Gap::default(); n + 1];
    let sep = |i: usize, s: &str| -> String {
        if i == 0 || i == n {
            String::new()
        } else {
            s.to_string()
        }
    };
    match name {
        "min" => {
            for i in 1..n {
                if needs_sep(&p.toks[i - 1].spell, &p.toks[i].spell) {
                    gaps[i].post = " ".into();
                }
            }
        }
        "nl" => {
            for (i, g) in gaps.iter_mut().enumerate() {
                g.post = sep(i, "\n");
            }
            gaps[n].post = "\n".into();
        }
        "crlf" => {
            for (i, g) in gaps.iter_mut().enumerate() {
                g.post = sep(i, "\r\n");
            }
            gaps[n].post = "\r\n".into();
        }
        // lone CR as line terminator (a line end under the LSP position rules), mixed with LF and CRLF
        "cr" => {
            for (i, g) in gaps.iter_mut().enumerate() {
                g.post = sep(i, if i % 3 == 2 { "\n" } else if i % 5 == 4 { "\r\n" } else { "\r" });
            }
            gaps[n].post = "\r".into();
        }
        "tab" => {
            for (i, g) in gaps.iter_mut().enumerate() {
                g.post = sep(i, "\t ");
            }
        }
        "cmtall" => {
            for (i, g) in gaps.iter_mut().enumerate() {
                g.pre = if i == 0 { String::new() } else { " ".into() };
                g.comments = vec![format!(" c{i}")];
                g.post = if i % 3 == 0 { "  ".into() } else { String::new() };
            }
        }
        "cmtuni" => {
            // comments with multi-byte and astral characters in every second gap, code after them on the same line start
            for (i, g) in gaps.iter_mut().enumerate() {
                g.post = sep(i, " ");
                if i % 2 == 0 {
                    g.pre = if i == 0 { String::new() } else { " ".into() };
                    g.comments = vec![format!(" \u{fc}\u{20ac}\u{1F600} c{i}")];
                    g.post = String::new();
                }
            }
        }
        other => {
            for (i, g) in gaps.iter_mut().enumerate() {
                g.post = sep(i, " ");
            }
            if let Some(rest) = other.strip_prefix("cmt@") {
                let g: usize = rest.parse().unwrap_or(0).min(n);
                gaps[g].pre = if g == 0 { String::new() } else { " ".into() };
                gaps[g].comments = vec![format!(" c{g}")];
                gaps[g].post = String::new();
            }
        }
    }
    Layout { name: name.to_string(), gaps }
}

/// One lexical token of the rendered text, as the specification predicts it.
#[derive(Clone, Debug)]
pub struct LexTok {
    pub comment: Option<String>, // Some(text) for a comment token
    pub tok: Option<usize>,      // Some(index into p.toks) for a terminal
    pub start: usize,            // byte range in the rendered text (a comment includes its line feed)
    pub end: usize,
}

pub struct Rendered {
    pub text: String,
    pub lex: Vec<LexTok>,          // all tokens incl. comments, without Eof
    pub tok_index: Vec<usize>,     // terminal i -> index in `lex`
    pub first_comment: Vec<usize>, // terminal i -> index in `lex` of the first comment of the run before it (or its own index)
}

pub fn render(p: &Prog, l: &Layout) -> Rendered {
    let mut text = String::new();
    let mut lex = Vec::new();
    let mut tok_index = Vec::new();
    let mut first_comment = Vec::new();
    for (i, g) in l.gaps.iter().enumerate() {
        text.push_str(&g.pre);
        let first = lex.len();
        for c in &g.comments {
            let start = text.len();
            text.push_str("//");
            text.push_str(c);
            text.push('\n');
            lex.push(LexTok { comment: Some(c.clone()), tok: None, start, end: text.len() });
        }
        text.push_str(&g.post);
        if i < p.toks.len() {
            let start = text.len();
            text.push_str(&p.toks[i].spell);
            first_comment.push(first);
            tok_index.push(lex.len());
            lex.push(LexTok { comment: None, tok: Some(i), start, end: text.len() });
        }
    }
    Rendered { text, lex, tok_index, first_comment }
}

/// NODE EXTENT RULE of SplGrammar.tla: from the first comment of the comment run preceding the node's
/// first terminal to just after its last terminal (indices into the full token list incl. comments).
pub fn extent(n: &Node, r: &Rendered) -> (usize, usize) {
    if n.first > n.last || n.last == usize::MAX {
        // empty node (e.g. an empty program): empty extent at the position of the next token
        let at = if n.first < r.first_comment.len() { r.first_comment[n.first] } else { 0 };
        return (at.min(0), 0);
    }
    (r.first_comment[n.first], r.tok_index[n.last] + 1)
}


// ---------------------------------------------------------------------------
// SplSession: realisation of token-level and character-level edits on the canonical rendering
// (one blank between tokens).

pub fn join(spells: &[String]) -> (String, Vec<usize>) {
    let mut text = String::new();
    let mut starts = Vec::new();
    for (i, s) in spells.iter().enumerate() {
        if i > 0 {
            text.push(' ');
        }
        starts.push(text.len());
        text.push_str(s);
    }
    (text, starts)
}

/// byte range + replacement text for replacing tokens [i, j) by `repl` in the canonical rendering
pub fn token_edit(spells: &[String], starts: &[usize], text: &str, i: usize, j: usize, repl: &[&str]) -> (std::ops::Range<usize>, String, Vec<String>) {
    let n = spells.len();
    let mut new_spells: Vec<String> = spells[..i].to_vec();
    new_spells.extend(repl.iter().map(|s| s.to_string()));
    new_spells.extend(spells[j..].iter().cloned());
    // minimal textual edit in the canonical rendering
    let start = if i < n { starts[i] } else { text.len() };
    let end = if j < n { starts[j] } else { text.len() };
    let mut ins = String::new();
    for (k, r) in repl.iter().enumerate() {
        if i >= n && (k > 0 || n > 0) {
            ins.push(' ');
        }
        ins.push_str(r);
        if i < n && (j < n || k + 1 < repl.len()) {
            ins.push(' ');
        }
    }
    let (start, end, ins) = if j >= n && i < n && repl.is_empty() {
        // deleting the tail: also delete the blank before it
        (if i > 0 { starts[i] - 1 } else { 0 }, text.len(), String::new())
    } else if j >= n && i < n {
        (starts[i], text.len(), repl.join(" "))
    } else {
        (start, end, ins)
    };
    (start..end, ins, new_spells)
}


/// One notification of a realised history: the changes (byte range in the text current at that change,
/// inserted text) and the text afterwards.
pub struct Step {
    pub changes: Vec<(std::ops::Range<usize>, String)>,
    pub text_after: String,
    pub edits: Vec<serde_json::Value>,
}

/// Realise a HISTORY case of SplSession (base token spellings + edits) into concrete text changes.
pub fn realise_history(case: &serde_json::Value) -> (String, Vec<Step>) {
    let mut spells: Vec<String> = case["base"].as_array().cloned().unwrap_or_default().iter().map(|v| v.as_str().unwrap_or("").to_string()).collect();
    let edits = case["edits"].as_array().cloned().unwrap_or_default();
    let (mut text, mut starts) = join(&spells);
    let base = text.clone();
    let mut steps = Vec::new();
    let mut k = 0usize;
    while k < edits.len() {
        // a notification = this edit plus, while an edit is marked "batch", its successor
        let mut changes = Vec::new();
        let first = k;
        loop {
            let e = &edits[k];
            let kind = e["kind"].as_str().unwrap_or("");
            if kind == "tokens" {
                let i = e["i"].as_u64().unwrap() as usize;
                let j = e["j"].as_u64().unwrap() as usize;
                let repl: Vec<String> = e["repl"].as_array().cloned().unwrap_or_default().iter().map(|v| v.as_str().unwrap_or("").to_string()).collect();
                let rr: Vec<&str> = repl.iter().map(|s| s.as_str()).collect();
                if i > j || j > spells.len() {
                    eprintln!("history: edit outside the document");
                    std::process::exit(2);
                }
                let (range, ins, ns) = token_edit(&spells, &starts, &text, i, j, &rr);
                text.replace_range(range.clone(), &ins);
                changes.push((range, ins));
                spells = ns;
                let j2 = join(&spells);
                if j2.0 != text {
                    eprintln!("harness: history token edit does not produce the canonical rendering");
                    std::process::exit(2);
                }
                starts = j2.1;
            } else if !spells.is_empty() {
                // character-level edit on token i (1-based), realised on the text; closes the history
                let i = (e["i"].as_u64().unwrap() as usize).clamp(1, spells.len()) - 1;
                let tok = &spells[i];
                let kk = (e["k"].as_u64().unwrap_or(0) as usize).min(tok.chars().count().saturating_sub(1));
                let at = starts[i] + tok.char_indices().nth(kk).map(|x| x.0).unwrap_or(0);
                let c = crate::concretise_char(e["c"].as_str().unwrap_or("x")).to_string();
                let (range, ins) = match kind {
                    "split" => (at..at, " ".to_string()),
                    "space" => (starts[i]..starts[i], if kk % 2 == 0 { " ".to_string() } else { "\n  ".to_string() }),
                    "comment" => (starts[i]..starts[i], if kk % 2 == 0 { "// ".to_string() } else { "//".to_string() }),
                    "join" => {
                        if i + 1 < spells.len() {
                            (starts[i + 1] - 1..starts[i + 1], String::new())
                        } else {
                            (at..at, String::new())
                        }
                    }
                    "insert" => (at..at, c),
                    _ => {
                        let len = tok[at - starts[i]..].chars().next().map(|ch| ch.len_utf8()).unwrap_or(0);
                        (at..at + len, String::new())
                    }
                };
                text.replace_range(range.clone(), &ins);
                changes.push((range, ins));
            }
            let batch = e["c"] == "batch" && e["kind"] == "tokens" && k + 1 < edits.len();
            k += 1;
            if !batch {
                break;
            }
        }
        steps.push(Step { changes, text_after: text.clone(), edits: edits[first..k].to_vec() });
    }
    (base, steps)
}
