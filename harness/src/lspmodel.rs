//! Independent LSP text/position model, written from spec/LspDocument.tla
//! (NOT from lsp4spl/src/document.rs).
//!
//! Lines end at "\n", "\r\n" or a lone "\r".  Columns count UTF-16 code
//! units.  A column beyond the end of a line denotes the end of that line
//! (before its terminator); a line beyond the last line denotes the end of
//! the text.

#[derive(Clone, Copy, Debug, PartialEq, Eq, PartialOrd, Ord)]
pub struct Pos {
    pub line: u32,
    pub col: u32,
}

/// (start byte of line, byte end of line content excluding terminator)
pub fn line_spans(text: &str) -> Vec<(usize, usize)> {
    let b = text.as_bytes();
    let mut spans = Vec::new();
    let mut start = 0usize;
    let mut i = 0usize;
    while i < b.len() {
        match b[i] {
            b'\n' => {
                spans.push((start, i));
                i += 1;
                start = i;
            }
            b'\r' => {
                spans.push((start, i));
                if i + 1 < b.len() && b[i + 1] == b'\n' {
                    i += 2;
                } else {
                    i += 1;
                }
                start = i;
            }
            _ => i += 1,
        }
    }
    spans.push((start, b.len()));
    spans
}

/// LSP position -> byte offset (clamping rules as above).
pub fn offset_of(text: &str, p: Pos) -> usize {
    let spans = line_spans(text);
    if (p.line as usize) >= spans.len() {
        return text.len();
    }
    let (s, e) = spans[p.line as usize];
    let mut units = 0u32;
    for (i, c) in text[s..e].char_indices() {
        if units >= p.col {
            return s + i;
        }
        units += c.len_utf16() as u32;
        // a column inside a surrogate pair: treat as the start of the next character
    }
    e
}

/// byte offset (on a char boundary) -> LSP position.  An offset inside a line
/// terminator ("\r|\n") is reported as the end of the line content.
pub fn pos_of(text: &str, off: usize) -> Pos {
    let spans = line_spans(text);
    let off = off.min(text.len());
    let mut li = 0usize;
    for (k, (s, _e)) in spans.iter().enumerate() {
        if *s <= off {
            li = k;
        } else {
            break;
        }
    }
    let (s, e) = spans[li];
    let upto = off.min(e);
    let col: usize = text[s..upto].chars().map(|c| c.len_utf16()).sum();
    Pos {
        line: li as u32,
        col: col as u32,
    }
}

/// End position of the document.
pub fn end_pos(text: &str) -> Pos {
    pos_of(text, text.len())
}

/// Apply a ranged replacement given by LSP positions.
pub fn apply_change(text: &str, start: Pos, end: Pos, ins: &str) -> String {
    let a = offset_of(text, start);
    let b = offset_of(text, end);
    let (a, b) = if a <= b { (a, b) } else { (a, a) };
    let mut s = String::with_capacity(text.len() + ins.len());
    s.push_str(&text[..a]);
    s.push_str(ins);
    s.push_str(&text[b..]);
    s
}

#[cfg(test)]
mod tests {
    use super::*;
    #[test]
    fn basics() {
        let t = "ab\r\nc\u{1F600}d\n\re";
        assert_eq!(line_spans(t), vec![(0, 2), (4, 10), (11, 11), (12, 13)]);
        assert_eq!(offset_of(t, Pos { line: 1, col: 3 }), 9);
        assert_eq!(offset_of(t, Pos { line: 0, col: 99 }), 2);
        assert_eq!(offset_of(t, Pos { line: 9, col: 0 }), t.len());
        assert_eq!(pos_of(t, 9), Pos { line: 1, col: 3 });
        assert_eq!(pos_of(t, 12), Pos { line: 3, col: 0 });
    }
}
