"""Shared machinery of /verif/bin/check: TLC runner, cargo builds, harness
runner, known-findings matcher, evidence writer, exit protocol.

Exit protocol: 0 = property held on everything explored (KNOWN-FINDING lines
allowed), 1 = violation (a line `VIOLATION property=<id> replay=<path>` was
printed and the replay file exists), 2 = tool error / timeout / vacuity.
"""
import hashlib
import json
import os
import re
import shutil
import subprocess
import sys
import time

ROOT = os.path.dirname(os.path.dirname(os.path.abspath(__file__)))
SPEC = os.path.join(ROOT, "spec")
OUT = os.path.join(ROOT, "out")
EVID = os.path.join(ROOT, "evidence")
HARNESS = os.path.join(ROOT, "harness")
TARGET = os.path.join(ROOT, "target")
REPO = os.environ.get("VERIF_REPO", "/repo")
KNOWN = os.path.join(ROOT, "known_findings.jsonl")

os.makedirs(OUT, exist_ok=True)
os.makedirs(EVID, exist_ok=True)


class ToolError(Exception):
    pass


def log(*a):
    print(*a, flush=True)


def seed():
    try:
        return int(os.environ.get("VERIF_SEED", "1"))
    except ValueError:
        return 1


def ncpu():
    try:
        return max(1, int(os.environ.get("VERIF_THREADS", os.cpu_count() or 4)))
    except ValueError:
        return 4


# ---------------------------------------------------------------------------
# TLC

_TLC_JAR = "/opt/veriftools/tla/tla2tools.jar"


def tlc(module, cfg, out_name, workers=None, simulate=None, depth=None, timeout=1800,
        env_extra=None, expect_fail=False, heap="8g", dfs=False, coverage=True, extra=None):
    """Run TLC on spec/<module>.tla with spec/<cfg>.  Returns dict with
    out (path of captured stdout), generated, distinct, coverage{action: (distinct, generated)},
    ok (no error reported), wall_s.  Raises ToolError on timeout or (unless
    expect_fail) on a TLC error."""
    workers = workers or min(ncpu(), 16)
    out_path = os.path.join(OUT, out_name + ".tlc.out")
    meta = os.path.join(OUT, "tlc_meta_" + out_name)
    shutil.rmtree(meta, ignore_errors=True)
    cmd = ["tlc", "-workers", str(workers), "-metadir", meta, "-cleanup", "-noGenerateSpecTE"]
    if coverage and not simulate:
        cmd += ["-coverage", "1"]
    if simulate:
        cmd += ["-simulate", "num=%d" % simulate, "-depth", str(depth or 100), "-seed", str(seed()), "-aril", "0"]
    if extra:
        cmd += extra
    cmd += ["-config", cfg, module + ".tla"]
    env = dict(os.environ)
    jopts = "-Xss1g -Xmx%s" % heap
    if dfs:
        jopts += " -Dtlc2.tool.queue.IStateQueue=StateDeque"
    env["JAVA_TOOL_OPTIONS"] = jopts
    if env_extra:
        env.update(env_extra)
    t0 = time.time()
    with open(out_path, "wb") as fo:
        try:
            p = subprocess.run(cmd, cwd=SPEC, stdout=fo, stderr=subprocess.STDOUT, env=env, timeout=timeout)
        except subprocess.TimeoutExpired:
            shutil.rmtree(meta, ignore_errors=True)
            raise ToolError("TLC timeout after %ds: %s %s" % (timeout, module, cfg))
    wall = time.time() - t0
    shutil.rmtree(meta, ignore_errors=True)
    res = {"out": out_path, "generated": 0, "distinct": 0, "coverage": {}, "ok": True, "wall_s": wall,
           "cmd": " ".join(cmd), "errors": []}
    cov_re = re.compile(r"^<(\w+) line \d+, col \d+ to line \d+, col \d+ of module (\w+)>: (\d+):(\d+)")
    with open(out_path, "r", errors="replace") as f:
        for line in f:
            if line.startswith("<<\""):
                continue
            m = re.match(r"^(\d+) states generated, (\d+) distinct states found", line)
            if m:
                res["generated"] = int(m.group(1))
                res["distinct"] = int(m.group(2))
            m = re.match(r"^The number of states generated: (\d+)", line)
            if m:
                res["generated"] = int(m.group(1))
            m = cov_re.match(line)
            if m:
                res["coverage"][m.group(1)] = (int(m.group(3)), int(m.group(4)))
            if line.startswith("Error:") or "TLC threw an unexpected exception" in line or "Parsing or semantic analysis failed" in line:
                res["ok"] = False
                res["errors"].append(line.strip()[:400])
    if p.returncode != 0 and res["ok"] and not simulate:
        res["ok"] = False
        res["errors"].append("tlc exit code %d" % p.returncode)
    if simulate and res["generated"] == 0:
        # simulation mode prints a different summary; count states from progress line if any
        pass
    if not res["ok"] and not expect_fail:
        raise ToolError("TLC reported an error for %s/%s: %s (see %s)" % (module, cfg, res["errors"][:3], out_path))
    return res


def require_coverage(res, actions):
    """Vacuity guard: every named action must have been taken."""
    for a in actions:
        c = res["coverage"].get(a)
        if c is None or c[1] == 0:
            raise ToolError("vacuous model run: action %s never taken (coverage %s)" % (a, res["coverage"]))


# ---------------------------------------------------------------------------
# cargo

def _run(cmd, cwd, timeout, what):
    env = dict(os.environ)
    env["CARGO_NET_OFFLINE"] = "true"
    t0 = time.time()
    try:
        p = subprocess.run(cmd, cwd=cwd, stdout=subprocess.PIPE, stderr=subprocess.STDOUT, env=env, timeout=timeout)
    except subprocess.TimeoutExpired:
        raise ToolError("%s: timeout" % what)
    if p.returncode != 0:
        sys.stdout.write(p.stdout.decode(errors="replace")[-4000:])
        raise ToolError("%s failed (exit %d)" % (what, p.returncode))
    return time.time() - t0


def build_harness():
    """Rebuild the harness against /repo's working tree (path dependency)."""
    _run(["cargo", "build", "--offline", "--bins"], HARNESS, 1800, "cargo build (harness)")
    return os.path.join(TARGET, "harness", "debug")


def build_server(verif=False):
    """Build lsp4spl from /repo's working tree into /verif/target (never into /repo/target)."""
    tdir = os.path.join(TARGET, "repo-verif" if verif else "repo-plain")
    cmd = ["cargo", "build", "--offline", "--manifest-path", os.path.join(REPO, "Cargo.toml"), "-p", "lsp4spl",
           "--target-dir", tdir]
    if verif:
        cmd += ["--features", "verif"]
    _run(cmd, REPO, 3600, "cargo build (lsp4spl%s)" % (" +verif" if verif else ""))
    return os.path.join(tdir, "debug", "lsp4spl")


def run_harness(binname, args, timeout=3600, env_extra=None):
    exe = os.path.join(TARGET, "harness", "debug", binname)
    env = dict(os.environ)
    env["RUST_BACKTRACE"] = "0"
    if env_extra:
        env.update(env_extra)
    try:
        p = subprocess.run([exe] + args, stdout=subprocess.PIPE, stderr=subprocess.STDOUT, env=env, timeout=timeout)
    except subprocess.TimeoutExpired:
        raise ToolError("harness %s %s: timeout" % (binname, args[:1]))
    txt = p.stdout.decode(errors="replace")
    if p.returncode != 0:
        sys.stdout.write(txt[-4000:])
        raise ToolError("harness %s %s failed (exit %d)" % (binname, args[:1], p.returncode))
    for l in txt.strip().splitlines()[-3:]:
        log("  " + l)
    return txt


def harness_result(path):
    with open(path) as f:
        return json.load(f)


# ---------------------------------------------------------------------------
# known findings

def load_known(prop):
    """Entries of known_findings.jsonl for this property that are still open
    (entries with "fixed" suppress nothing)."""
    out = []
    if not os.path.exists(KNOWN):
        return out
    with open(KNOWN) as f:
        for line in f:
            line = line.strip()
            if not line or line.startswith("#"):
                continue
            e = json.loads(line)
            if e.get("property") != prop or "fixed" in e:
                continue
            out.append(e)
    return out


def match_known(entry, failure):
    """A failure matches a known finding when every key of entry["match"]
    equals the failure's field (what / site / input hash)."""
    m = entry.get("match", {})
    if not m:
        return False
    for k, v in m.items():
        fv = failure.get(k)
        if k == "input_hash":
            fv = failure.get("input_hash") or input_hash(failure.get("case"))
        if isinstance(v, list):
            if fv not in v:
                return False
        elif fv != v:
            return False
    return True


def input_hash(case):
    return hashlib.sha256(json.dumps(case, sort_keys=True, separators=(",", ":")).encode()).hexdigest()[:16]


# ---------------------------------------------------------------------------
# a check run

class Check:
    def __init__(self, prop, tier):
        self.prop = prop
        self.tier = tier
        self.t0 = time.time()
        self.states = 0
        self.transitions = 0
        self.traces = 0
        self.evaluations = 0
        self.nontrivial = 0
        self.samples = []
        self.failures = []       # dicts with what, site, detail, case, part
        self.nfail_total = 0
        self.class_totals = {}   # (part, "what|site") -> number of failures of that class (recorded or not)
        self.parts = []          # per-part coverage notes
        self.assumptions = []
        self.notes = {}
        self.exhaustive = False
        self.rule = ""

    def add_tlc(self, res, label):
        self.states += res["distinct"]
        self.transitions += res["generated"]
        self.parts.append({"part": label, "tlc_distinct_states": res["distinct"], "tlc_states_generated": res["generated"],
                           "tlc_wall_s": round(res["wall_s"], 1),
                           "tlc_action_coverage": {k: v[1] for k, v in res["coverage"].items()}, "tlc_cmd": res["cmd"]})

    def add_harness(self, r, label, traces=None):
        self.evaluations += r["evaluations"]
        self.nontrivial += r["nontrivial"]
        self.traces += traces if traces is not None else r["cases"]
        self.nfail_total += r["nfail"]
        for k, n in r.get("counters", {}).items():
            if k.startswith("class:"):
                self.class_totals[(label, k[6:])] = self.class_totals.get((label, k[6:]), 0) + n
        for f in r["failures"]:
            f = dict(f)
            f["part"] = label
            self.failures.append(f)
        if r.get("samples") and len(self.samples) < 4:
            self.samples.append({"part": label, "case": r["samples"][0]})
        self.parts.append({"part": label, "cases_replayed": r["cases"], "implementation_executions": r["evaluations"],
                           "nontrivial": r["nontrivial"], "failures": r["nfail"], "counters": r.get("counters", {})})

    def finish(self, level="model_checking"):
        """Match failures against known findings, write replay + evidence, print the verdict lines, exit."""
        known = load_known(self.prop)
        known_hits = {}
        violations = []
        for f in self.failures:
            hit = None
            for e in known:
                if match_known(e, f):
                    hit = e
                    break
            if hit is not None:
                key = hit.get("id", hit.get("what", "?"))
                known_hits.setdefault(key, [hit, 0])
                known_hits[key][1] += 1
            else:
                violations.append(f)
        # failures beyond the per-class recording cap: a class all of whose recorded members matched a known
        # finding identified by what/site only is known as a whole; any other unrecorded failure is a violation
        unrecorded = 0
        rec = {}
        for f in self.failures:
            key = (f.get("part"), "%s|%s" % (f.get("what"), f.get("site")))
            rec[key] = rec.get(key, 0) + 1
        viol_classes = {(v.get("part"), "%s|%s" % (v.get("what"), v.get("site"))) for v in violations}
        for key, total in self.class_totals.items():
            extra = total - rec.get(key, 0)
            if extra <= 0:
                continue
            what, site = key[1].split("|", 1)
            probe = {"what": what, "site": site, "part": key[0]}
            simple = [e for e in known if set(e.get("match", {}).keys()) <= {"what", "site", "part"} and match_known(e, probe)]
            if simple and key not in viol_classes:
                k0 = simple[0].get("id", simple[0].get("what", "?"))
                known_hits.setdefault(k0, [simple[0], 0])
                known_hits[k0][1] += extra
            else:
                unrecorded += extra
        if unrecorded and not violations:
            violations.append({"what": "unrecorded-failures", "site": "", "part": "*", "mode": None,
                               "detail": {"count": unrecorded, "why": "more failures than the recording cap; rerun with a larger max_fail"},
                               "case": None})
        for key, (e, n) in sorted(known_hits.items()):
            log("KNOWN-FINDING: property=%s %s (id=%s, %d occurrence(s) in this run)" % (self.prop, e.get("what", ""), key, n))
        replay = None
        if violations:
            rdir = os.path.join(OUT, "replay")
            os.makedirs(rdir, exist_ok=True)
            for i, v in enumerate(violations[:20]):
                path = os.path.join(rdir, "%s_%s_%d.json" % (self.prop, self.tier, i))
                with open(path, "w") as fo:
                    json.dump({"property": self.prop, "mode": v.get("mode"), "part": v.get("part"), "tag": v.get("tag", "CASE"),
                               "what": v.get("what"), "site": v.get("site"), "detail": v.get("detail"), "case": v.get("case"),
                               "replay": v.get("replay")}, fo)
                    fo.write("\n")
                if replay is None:
                    replay = path
        wall = time.time() - self.t0
        cov = {
            "states": int(self.states), "transitions": int(self.transitions),
            "traces_validated_against_impl": int(self.traces),
            "evaluations": int(self.evaluations), "distinct_nontrivial": int(self.nontrivial),
            "rule": self.rule, "samples": self.samples or [{"note": "no sample recorded"}],
            "exhaustive": bool(self.exhaustive), "parts": self.parts,
            "known_findings_seen": {k: n for k, (e, n) in known_hits.items()},
        }
        cov.update(self.notes)
        ev = {"property_id": self.prop, "tier": self.tier, "seed": seed(), "level": level, "coverage": cov,
              "assumptions": self.assumptions, "wall_s": round(wall, 2), "violations": len(violations)}
        with open(os.path.join(EVID, self.prop + ".json"), "w") as fo:
            json.dump(ev, fo, indent=1)
            fo.write("\n")
        if violations:
            for v in violations[:5]:
                log("  violation: part=%s what=%s site=%s %s" % (v.get("part"), v.get("what"), v.get("site"),
                                                                 json.dumps(v.get("detail"))[:600]))
            log("VIOLATION property=%s replay=%s" % (self.prop, replay))
            log("%s %s: %d violation(s) (%d recorded) in %.1fs" % (self.prop, self.tier, len(violations) + max(0, unrecorded),
                                                                    len(violations), wall))
            sys.exit(1)
        log("%s %s: OK  states=%d transitions=%d replayed=%d executions=%d  %.1fs" % (
            self.prop, self.tier, self.states, self.transitions, self.traces, self.evaluations, wall))
        sys.exit(0)


def main_wrapper(fn):
    try:
        fn()
    except ToolError as e:
        log("TOOL-ERROR: %s" % e)
        sys.exit(2)


def tlc_sim_multi(module, cfg, out_name, procs, num, depth, timeout=1800, env_extra=None):
    """Simulation with RandomElement-driven specs: TLC workers share the seed's
    stream (all workers of one process produce the same traces), so run `procs`
    single-worker processes with seeds derived from VERIF_SEED.  Output files
    are concatenated into out/<out_name>.tlc.out.  Returns a result dict like tlc()."""
    base = seed()
    ps = []
    t0 = time.time()
    for i in range(procs):
        out_path = os.path.join(OUT, "%s.%d.tlc.out" % (out_name, i))
        meta = os.path.join(OUT, "tlc_meta_%s_%d" % (out_name, i))
        shutil.rmtree(meta, ignore_errors=True)
        cmd = ["tlc", "-workers", "1", "-metadir", meta, "-noGenerateSpecTE", "-simulate", "num=%d" % num,
               "-depth", str(depth), "-seed", str(base * 1000 + i), "-aril", "0", "-config", cfg, module + ".tla"]
        env = dict(os.environ)
        env["JAVA_TOOL_OPTIONS"] = "-Xss1g -Xmx2g"
        if env_extra:
            env.update(env_extra)
        fo = open(out_path, "wb")
        ps.append((subprocess.Popen(cmd, cwd=SPEC, stdout=fo, stderr=subprocess.STDOUT, env=env), fo, out_path, meta, cmd))
    res = {"out": os.path.join(OUT, out_name + ".tlc.out"), "generated": 0, "distinct": 0, "coverage": {}, "ok": True,
           "wall_s": 0, "cmd": "", "errors": []}
    deadline = t0 + timeout
    with open(res["out"], "wb") as allout:
        for (p, fo, out_path, meta, cmd) in ps:
            try:
                p.wait(timeout=max(1, deadline - time.time()))
            except subprocess.TimeoutExpired:
                for (q, _, _, _, _) in ps:
                    q.kill()
                raise ToolError("TLC simulation timeout: %s %s" % (module, cfg))
            fo.close()
            shutil.rmtree(meta, ignore_errors=True)
            res["cmd"] = " ".join(cmd)
            with open(out_path, "rb") as f:
                for line in f:
                    if line.startswith(b"<<\""):
                        allout.write(line)
                        continue
                    l = line.decode(errors="replace")
                    m = re.match(r"^The number of states generated: (\d+)", l)
                    if m:
                        res["generated"] += int(m.group(1))
                        res["distinct"] += int(m.group(1))
                    if l.startswith("Error:") or "unexpected exception" in l or "Parsing or semantic analysis failed" in l:
                        res["ok"] = False
                        res["errors"].append(l.strip()[:400])
            os.remove(out_path)
    res["wall_s"] = time.time() - t0
    if not res["ok"]:
        raise ToolError("TLC simulation reported an error for %s/%s: %s" % (module, cfg, res["errors"][:3]))
    return res


def split_tags(tlc_out, tags):
    """Split a TLC output file into one file per tag (lines `<<"TAG", ...`)."""
    paths = {t: tlc_out + "." + t for t in tags}
    files = {t: open(p, "wb") for t, p in paths.items()}
    with open(tlc_out, "rb") as f:
        for line in f:
            for t in tags:
                if line.startswith(b'<<"' + t.encode() + b'"'):
                    files[t].write(line)
                    break
    for fo in files.values():
        fo.close()
    return paths
