"""Per-property check procedures (see DESIGN.md section 5)."""
import json
import os
import re

import vlib
from vlib import Check, ToolError, log


def _meta_of(cases):
    """the META line of a TLC output (constants of a mirrored enumeration), if any"""
    try:
        with open(cases, "rb") as f:
            for i, line in enumerate(f):
                if line.startswith(b'<<"META"'):
                    import re
                    body = line.decode()[len('<<"META", "'):].rstrip()[:-3]
                    return json.loads(re.sub(r"\\(.)", r"\1", body))
                if i > 50:
                    break
    except OSError:
        pass
    return None


def _attach_replay(r, binname, mode, args, cases):
    meta = _meta_of(cases)
    for f in r["failures"]:
        f["replay"] = {"bin": binname, "mode": mode, "args": args, "meta": meta}
    return r


def _fe(mode, cases, name, extra=None):
    res = os.path.join(vlib.OUT, name + ".result.json")
    vlib.run_harness("fe", [mode, cases, res] + (extra or []))
    return _attach_replay(vlib.harness_result(res), "fe", mode, extra or [], cases)


def replay(prop, path):
    """Re-run one recorded violation against /repo's current working tree."""
    with open(path) as f:
        rec = json.load(f)
    rp = rec.get("replay")
    if not rp or rec.get("case") is None:
        raise ToolError("replay file carries no replayable case (what=%s)" % rec.get("what"))
    vlib.build_harness()
    args = list(rp.get("args", []))
    for i, a in enumerate(args):
        if a.startswith("exe="):
            args[i] = "exe=" + vlib.build_server("repo-verif" in a)
    tmp = os.path.join(vlib.OUT, "replay_case.ndjson")
    with open(tmp, "w") as fo:
        if rp.get("meta"):
            fo.write(json.dumps({"tag": "META", "case": rp["meta"]}) + "\n")
        fo.write(json.dumps({"tag": rec.get("tag", "CASE"), "case": rec["case"]}) + "\n")
    res = os.path.join(vlib.OUT, "replay_case.result.json")
    vlib.run_harness(rp["bin"], [rp["mode"], tmp, res] + args)
    r = vlib.harness_result(res)
    want = rec.get("what")
    hits = [f for f in r["failures"] if f["what"] == want] or r["failures"]
    for f in hits[:5]:
        log("  %s %s %s" % (f["what"], f.get("site"), json.dumps(f["detail"])[:1500]))
    if hits:
        log("VIOLATION property=%s replay=%s" % (prop, path))
        raise SystemExit(1)
    log("replay: no failure")
    raise SystemExit(0)


def _tag_mode(r, mode):
    for f in r["failures"]:
        f["mode"] = mode
    return r


# ---------------------------------------------------------------------------
# C06  tokenisation is lossless and follows the lexical grammar

def c06(tier):
    c = Check("C06", tier)
    c.rule = ("TLC enumerates every text up to the length bound over an alphabet covering every decision of the lexical "
              "grammar, checks Tiling/LongestMatch/KeywordBoundary of the reference lexer on each and prints text + Lex(text); "
              "each is replayed into lexer::lex (tiling for every text, token-by-token conformance for lexically valid ones). "
              "Lexeme chains (simulation) give long valid texts; random long texts lexed by the code are validated by TLC "
              "against Lex (TraceLexer). A case is non-trivial if it has at least one token besides Eof.")
    vlib.build_harness()
    cfgs = ["MC_Lexer_quick", "MC_Lexer_core4"] if tier == "quick" else ["MC_Lexer_full4", "MC_Lexer_core5"]
    for cfg in cfgs:
        res = vlib.tlc("MC_Lexer", cfg + ".cfg", "c06_" + cfg, timeout=3000)
        vlib.require_coverage(res, ["Next"])
        c.add_tlc(res, cfg)
        r = _tag_mode(_fe("lexer", res["out"], "c06_" + cfg), "lexer")
        if r["cases"] != res["distinct"]:
            raise ToolError("binding: replayed %d cases but TLC found %d states" % (r["cases"], res["distinct"]))
        c.add_harness(r, cfg)
        os.remove(res["out"])
    # lexeme chains
    procs, num = (8, 60) if tier == "quick" else (16, 1500)
    res = vlib.tlc_sim_multi("MC_LexerChain", "Sim_LexerChainLex.cfg", "c06_chain", procs, num, 40)
    c.add_tlc(res, "lexeme-chains(simulation)")
    r = _tag_mode(_fe("lexer", res["out"], "c06_chain"), "lexer")
    c.add_harness(r, "lexeme-chains")
    os.remove(res["out"])
    # implementation -> specification
    n = 400 if tier == "quick" else 6000
    trace = os.path.join(vlib.OUT, "c06_lextrace.ndjson")
    vlib.run_harness("fe", ["lextrace", trace, os.path.join(vlib.OUT, "c06_lextrace.json"), "n=%d" % n, "seed=%d" % vlib.seed()])
    res = vlib.tlc("TraceLexer", "TraceLexer.cfg", "c06_trace", workers=1, env_extra={"TRACE": trace}, expect_fail=True,
                   coverage=False, timeout=3000)
    c.add_tlc(res, "TraceLexer(recorded texts)")
    if not res["ok"]:
        rej = ""
        with open(res["out"], errors="replace") as f:
            for line in f:
                if "REJECTED" in line:
                    rej = line.strip()
        if not rej:
            raise ToolError("TraceLexer failed without rejection: %s" % res["errors"][:2])
        import re
        m = re.search(r"REJECTED at record\", (\d+)", rej)
        idx = int(m.group(1)) if m else 1
        with open(trace) as f:
            rec = f.read().splitlines()[idx - 1]
        c.failures.append({"what": "trace-rejected", "site": "", "mode": "lextrace", "part": "TraceLexer",
                           "detail": {"why": rej, "record_index": idx}, "case": json.loads(rec)})
        c.nfail_total += 1
    else:
        c.traces += n
        c.evaluations += n
        c.parts.append({"part": "TraceLexer", "records_validated": n})
    c.assumptions = ["Unicode is represented by one character per UTF-8 length class (U+0142, U+20AC, U+1F600)",
                     "integer literals beyond 9 decimal / 7 hex digits are outside TLC's 32-bit integers and only tiled",
                     "a comment token may or may not include its line terminator"]
    c.exhaustive = True
    c.finish()


# ---------------------------------------------------------------------------
# C07  incremental lexing = batch lexing + truthful window

def c07(tier):
    c = Check("C07", tier)
    c.rule = ("TLC explores the graph whose states are all texts up to the length bound and whose transitions are ALL edits "
              "(lo, hi, inserted string), asserting the contract for the algorithm model on every transition; the harness replays "
              "every transition of that graph into lexer::update and evaluates the contract (tokens = fresh lex incl. errors, window "
              "truthful). The number of replayed transitions must equal TLC's. Edit chains on long texts come from simulation.")
    vlib.build_harness()
    cfgs = ["MC_LexerInc_quick"] if tier == "quick" else ["MC_LexerInc_quick", "MC_LexerInc_len4", "MC_LexerInc_len4ins2"]
    for cfg in cfgs:
        # (-coverage makes TLC's cost model exhaust the heap on the recursive lexer operators;
        #  vacuity is guarded by the transition count instead: the only action is Edit)
        res = vlib.tlc("MC_LexerInc", cfg + ".cfg", "c07_" + cfg, timeout=6000, coverage=False)
        if res["generated"] <= res["distinct"]:
            raise ToolError("vacuous model run: no Edit transitions")
        c.add_tlc(res, cfg)
        r = _tag_mode(_fe("lexinc", res["out"], "c07_" + cfg), "lexinc")
        got = r["counters"].get("transitions", 0)
        if got != res["generated"] - 1:
            raise ToolError("binding: harness replayed %d transitions, TLC generated %d" % (got, res["generated"] - 1))
        c.add_harness(r, cfg, traces=got)
        os.remove(res["out"])
    procs, num = (8, 60) if tier == "quick" else (16, 1500)
    res = vlib.tlc_sim_multi("MC_LexerChain", "Sim_LexerChain.cfg", "c07_chain", procs, num, 40)
    c.add_tlc(res, "edit-chains(simulation)")
    paths = vlib.split_tags(res["out"], ["CHAIN"])
    r = _tag_mode(_fe("lexchain", paths["CHAIN"], "c07_chain"), "lexchain")
    c.add_harness(r, "edit-chains")
    os.remove(res["out"])
    os.remove(paths["CHAIN"])
    # the design check has teeth: the pinned look-ahead table must be refuted by TLC
    res = vlib.tlc("MC_LexerInc", "MC_LexerInc_pinned.cfg", "c07_pinned", expect_fail=True, coverage=False, timeout=600)
    if res["ok"]:
        raise ToolError("vacuity: TLC did not refute the pinned look-ahead table")
    c.parts.append({"part": "design-check", "pinned_lookahead_table_refuted_by_TLC": True})
    c.assumptions = ["texts over a 13-character alphabet covering every look-ahead class",
                     "old tokens are lexer::lex(old text); C06 ties those to the specification"]
    c.exhaustive = True
    c.finish()


# ---------------------------------------------------------------------------
# server-level helpers

def _srv(mode, cases, name, exe, extra=None, timeout=3600):
    res = os.path.join(vlib.OUT, name + ".result.json")
    vlib.run_harness("srv", [mode, cases, res, "exe=" + exe, "seed=%d" % vlib.seed(), "max_fail=60"] + (extra or []), timeout=timeout)
    keep = [a for a in (extra or []) if not a.startswith(("stride=", "offset=", "trace_out="))]
    return _attach_replay(_tag_mode(vlib.harness_result(res), "srv:" + mode), "srv", mode,
                          ["exe=" + exe, "seed=%d" % vlib.seed()] + keep, cases)


def _trace_cfg(trace_path, name, diagcap=True):
    uris = set()
    with open(trace_path) as f:
        for line in f:
            e = json.loads(line)
            if e.get("uri"):
                uris.add(e["uri"])
    if not uris:
        uris.add("file:/none")
    with open(os.path.join(vlib.SPEC, "TraceServer.cfg")) as f:
        cfg = f.read()
    cfg = cfg.replace("URIs <- TraceURIs", "URIs = {%s}" % ", ".join('"%s"' % u for u in sorted(uris)))
    cfg = cfg.replace("DiagCap = TRUE", "DiagCap = %s" % ("TRUE" if diagcap else "FALSE"))
    cfg_name = "TraceServer_%s.cfg" % name
    with open(os.path.join(vlib.SPEC, cfg_name), "w") as f:
        f.write(cfg)
    return cfg_name


def _tlc_trace(trace_path, name, diagcap):
    cfg_name = _trace_cfg(trace_path, name, diagcap)
    try:
        res = vlib.tlc("TraceServer", cfg_name, "trace_" + name, workers=1, env_extra={"TRACE": trace_path}, expect_fail=True,
                       coverage=False, timeout=1800, dfs=True, heap="4g")
    finally:
        try:
            os.remove(os.path.join(vlib.SPEC, cfg_name))
        except OSError:
            pass
    rejected = None
    if not res["ok"]:
        with open(res["out"], errors="replace") as f:
            for line in f:
                if "REJECTED" in line:
                    rejected = line.strip()
        if rejected is None:
            raise ToolError("TraceServer failed without a rejection: %s (see %s)" % (res["errors"][:2], res["out"]))
    return res, rejected


def validate_server_trace(c, trace_path, name, diagcap=True, label="TraceServer"):
    """Validate a merged multi-session trace; on rejection bisect to the first rejected session."""
    with open(trace_path) as f:
        lines = f.read().splitlines()
    sessions, cur = [], []
    nreset = 0
    for l in lines:
        cur.append(l)
        if '"ev":"reset"' in l:
            nreset += 1
            if nreset == 4:
                sessions.append(cur)
                cur, nreset = [], 0
    res, rejected = _tlc_trace(trace_path, name, diagcap)
    c.add_tlc(res, label)
    if rejected is None:
        c.traces += len(sessions)
        c.parts.append({"part": label, "sessions_validated": len(sessions), "events": len(lines)})
        return True
    # find the first rejected session by bisection over prefixes
    lo, hi = 0, len(sessions)          # invariant: prefix of lo sessions accepted, prefix of hi rejected
    tmp = os.path.join(vlib.OUT, "trace_bisect_%s.ndjson" % name)
    while hi - lo > 1:
        mid = (lo + hi) // 2
        with open(tmp, "w") as f:
            f.write("\n".join(l for s in sessions[lo:mid] for l in s) + "\n")
        _, rej = _tlc_trace(tmp, name + "_bisect", diagcap)
        if rej is None:
            lo = mid
        else:
            hi = mid
    bad = sessions[lo] if sessions else lines
    with open(tmp, "w") as f:
        f.write("\n".join(bad) + "\n")
    _, rej = _tlc_trace(tmp, name + "_bisect", diagcap)
    events = [json.loads(l) for l in bad]
    c.failures.append({"what": "trace-rejected", "site": "", "mode": "trace", "part": label,
                       "detail": {"why": rej or rejected, "session_index": lo, "events": len(events),
                                  "sent": [e for e in events if e["task"] == "D" and e["ev"] == "send"][:12]},
                       "case": {"events": events}})
    c.nfail_total += 1
    return False


def _refute(c, module, cfg, what):
    """Design check with teeth: TLC must refute a named deviation of the code."""
    res = vlib.tlc(module, cfg, "refute_" + cfg.replace(".cfg", ""), expect_fail=True, coverage=False, timeout=900)
    if res["ok"]:
        raise ToolError("vacuity: TLC did not refute %s (%s)" % (what, cfg))
    c.parts.append({"part": "design-check", "refuted_by_TLC": what, "cfg": cfg})


# ---------------------------------------------------------------------------
# C18  lifecycle conformance and clean termination

def c18(tier):
    c = Check("C18", tier)
    c.rule = ("TLC model-checks LspServer (reader phase machine, bounded channels, broker, responder; all interleavings) against the "
              "sequential semantics ExpStep; MC_LspScripts enumerates ALL client message sequences up to K over "
              "{initialize, initialized, supported request, unknown request (numeric and string id), didOpen, unknown notification, "
              "shutdown, exit} with predicted responses and exit status; each is run against the real binary followed by end of input "
              "(= every frame-boundary cut); short sessions are additionally cut at every byte. Non-trivial: >= 2 messages.")
    vlib.build_harness()
    exe = vlib.build_server(False)
    exe_v = vlib.build_server(True)
    res = vlib.tlc("MC_LspServer", "MC_LspServer_life.cfg", "c18_life", timeout=1800)
    vlib.require_coverage(res, ["ClientSend", "ClientClose", "ReaderStep", "ReaderEof", "BrokerStep", "ReaderRespond",
                                "ResponderWrite", "ProcessEnd"])
    c.add_tlc(res, "MC_LspServer_life")
    _refute(c, "MC_LspServer", "MC_LspServer_abrupt.cfg", "AbruptExit (process::exit while responses are queued)")
    if tier == "thorough":
        res = vlib.tlc("MC_LspServer", "MC_LspServer_live.cfg", "c18_live", timeout=3000, coverage=False)
        c.add_tlc(res, "MC_LspServer_live (liveness under fairness)")
    cfg = "MC_LspScripts_life4.cfg" if tier == "quick" else "MC_LspScripts_life5.cfg"
    res = vlib.tlc("MC_LspScripts", cfg, "c18_scripts", timeout=1800)
    vlib.require_coverage(res, ["GNext"])
    c.add_tlc(res, cfg)
    r = _srv("script", res["out"], "c18_scripts", exe, ["chunk=msg", "cuts=%d" % (2 if tier == "quick" else 3)])
    if r["cases"] != res["distinct"]:
        raise ToolError("binding: replayed %d scripts, TLC enumerated %d" % (r["cases"], res["distinct"]))
    c.add_harness(r, "scripts(plain binary)")
    # the same scripts as one burst against the hooked binary, traces validated by TraceServer
    stride = 9 if tier == "quick" else 3
    noS = os.path.join(vlib.OUT, "c18_scripts_nosunk.out")
    with open(res["out"], "rb") as fi, open(noS, "wb") as fo:
        for i, line in enumerate(l for l in fi if l.startswith(b'<<"SCRIPT"') and b"sunk" not in l):
            if i % stride == 0:
                fo.write(line)
    trace = os.path.join(vlib.OUT, "c18_trace.ndjson")
    r = _srv("trace", noS, "c18_trace", exe_v, ["trace_out=" + trace])
    c.parts.append({"part": "trace-recording", "sessions": r["cases"], "events": r["counters"].get("events", 0)})
    validate_server_trace(c, trace, "c18", True, "TraceServer(lifecycle sessions)")
    for p in (res["out"], noS, trace):
        try:
            os.remove(p)
        except OSError:
            pass
    c.assumptions = ["end of input without `exit`: exit status unconstrained, only termination within 15 s and no crash",
                     "between initialize's answer and `initialized`, a second initialize may be rejected with either code",
                     "sessions of the hooked binary are recorded with all messages in one burst"]
    c.exhaustive = True
    c.finish()


# ---------------------------------------------------------------------------
# C19  framing independent of chunking

def c19(tier):
    c = Check("C19", tier)
    c.rule = ("TLC explores LspFraming: every chunking of every stream of 1-3 frames (bodies with multi-byte characters, one- and "
              "two-digit lengths) through the decoder model (guard, partial header, body wait, advance) and refutes the "
              "'length in characters' encoder. Conformance: document sessions with non-ASCII text generated from LspProtocol are run "
              "against the real binary under every two-way split of their byte stream, 7-byte writes, one burst and random multi-way "
              "splits with delays; each must yield the predicted outputs and the same streams as the first segmentation. Every frame "
              "the server emits is parsed by an independent frame reader.")
    vlib.build_harness()
    exe_v = vlib.build_server(True)
    res = vlib.tlc("MC_LspFraming", "MC_LspFraming.cfg", "c19_framing", timeout=1800)
    vlib.require_coverage(res, ["Deliver", "Eof"])
    c.add_tlc(res, "MC_LspFraming")
    _refute(c, "MC_LspFraming", "MC_LspFraming_chars.cfg", "CountChars (Content-Length in characters)")
    res = vlib.tlc("MC_LspScripts", "MC_LspScripts_docs3.cfg", "c19_scripts", timeout=1800)
    c.add_tlc(res, "MC_LspScripts_docs3")
    n = res["distinct"]
    st = max(1, n // (12 if tier == "quick" else 120))
    r = _srv("script", res["out"], "c19_split2", exe_v, ["verif=1", "chunk=split2", "stride=%d" % st, "offset=%d" % (vlib.seed() % st)])
    c.add_harness(r, "all two-way splits")
    st = max(1, n // (150 if tier == "quick" else 1500))
    r = _srv("script", res["out"], "c19_rand", exe_v, ["verif=1", "chunk=rand", "stride=%d" % st, "offset=%d" % (vlib.seed() % st)])
    c.add_harness(r, "random multi-way splits with delays")
    st = max(1, n // (300 if tier == "quick" else 3616))
    r = _srv("script", res["out"], "c19_bytes7", exe_v, ["verif=1", "chunk=bytes7", "stride=%d" % st])
    c.add_harness(r, "7-byte writes")
    r = _srv("script", res["out"], "c19_one", exe_v, ["verif=1", "chunk=one"])
    c.add_harness(r, "one burst")
    os.remove(res["out"])
    c.assumptions = ["byte streams are complete LSP sessions generated from LspProtocol; header is `Content-Length` only"]
    c.exhaustive = True
    c.finish()


# ---------------------------------------------------------------------------
# C20  ordering, read-your-writes, isolation under load

def c20(tier):
    c = Check("C20", tier)
    c.rule = ("TLC model-checks LspServer over 3 URIs (two differing only in scheme) with channel capacities 1-2, with and without the "
              "diagnostics capability, for all scripts up to 4-5 messages and all interleavings: OutputIsSequentialSemantics, "
              "StrictIsolation, LastDiagnosticsAreFinal, NoDiagnosticsWithoutCapability; it refutes path-only document keys. "
              "All scripts up to 3 messages and simulated scripts of 300 messages are pipelined in one burst into the hooked binary and "
              "every response (read-your-writes via $/verif/text), per-URI diagnostics stream and last diagnostics are compared; "
              "recorded traces of the three tasks are validated by TraceServer.")
    vlib.build_harness()
    exe_v = vlib.build_server(True)
    acts = ["ClientSend", "ReaderStep", "BrokerStep", "ReaderRespond", "ResponderWrite"]
    for cfg in (["MC_LspServer_docs", "MC_LspServer_nodiag"] if tier == "quick" else ["MC_LspServer_docs", "MC_LspServer_nodiag", "MC_LspServer_docs5"]):
        res = vlib.tlc("MC_LspServer", cfg + ".cfg", "c20_" + cfg, timeout=3000, heap="16g")
        vlib.require_coverage(res, acts)
        c.add_tlc(res, cfg)
    _refute(c, "MC_LspServer", "MC_LspServer_pathonly.cfg", "PathOnly (documents keyed by uri.path())")
    res = vlib.tlc("MC_LspScripts", "MC_LspScripts_docs3.cfg", "c20_scripts", timeout=1800)
    c.add_tlc(res, "MC_LspScripts_docs3")
    r = _srv("script", res["out"], "c20_docs3", exe_v, ["verif=1", "chunk=one"])
    if r["cases"] != res["distinct"]:
        raise ToolError("binding: replayed %d scripts, TLC enumerated %d" % (r["cases"], res["distinct"]))
    c.add_harness(r, "all scripts <= 3 messages, one burst")
    trace = os.path.join(vlib.OUT, "c20_trace.ndjson")
    r = _srv("trace", res["out"], "c20_trace", exe_v, ["trace_out=" + trace, "stride=%d" % (6 if tier == "quick" else 1)])
    validate_server_trace(c, trace, "c20", True, "TraceServer(document sessions)")
    os.remove(res["out"])
    # load: long pipelined scripts
    procs, num = (4, 2) if tier == "quick" else (16, 12)
    for cfg, diag in (("Sim_LspScripts_load.cfg", True), ("Sim_LspScripts_load_nodiag.cfg", False)):
        res = vlib.tlc_sim_multi("MC_LspScripts", cfg, "c20_" + cfg.replace(".cfg", ""), procs, num, 301)
        c.add_tlc(res, cfg)
        r = _srv("script", res["out"], "c20_load_%s" % diag, exe_v, ["verif=1", "chunk=one"])
        c.add_harness(r, "pipelined 300-message scripts, diagcap=%s" % diag)
        tr = os.path.join(vlib.OUT, "c20_trace_load_%s.ndjson" % diag)
        r = _srv("trace", res["out"], "c20_trace_load_%s" % diag, exe_v, ["trace_out=" + tr, "stride=%d" % (12 if tier == "quick" else 4)])
        validate_server_trace(c, tr, "c20load", diag, "TraceServer(load, diagcap=%s)" % diag)
        os.remove(res["out"])
        os.remove(tr)
    os.remove(trace)
    # bursts: > 32 document notifications without a request in between, on documents large enough for the reader to run
    # ahead of the broker (the document channel really fills up), then one request per document
    _refute(c, "MC_LspServer", "MC_LspServer_spawn.cfg", "SpawnOnFull (a change that finds doctx full is sent later by a spawned task)")
    procs, num = (3, 2) if tier == "quick" else (16, 6)
    res = vlib.tlc_sim_multi("MC_LspScripts", "Sim_LspScripts_burst.cfg", "c20_burst", procs, num, 151)
    c.add_tlc(res, "Sim_LspScripts_burst (144 notifications, then requests)")
    r = _srv("script", res["out"], "c20_burst", exe_v, ["verif=1", "chunk=one", "big=1", "bound_ms=240000"])
    c.add_harness(r, "bursts of 144 notifications on 30 KiB documents")
    os.remove(res["out"])
    c.assumptions = ["OS-level scheduling is sampled, not enumerated; interleavings are enumerated on the model and tied to the code by trace validation",
                     "relative order of broker-independent responses and diagnostics is not constrained (benign race, modelled)"]
    c.exhaustive = True
    c.finish()


# ---------------------------------------------------------------------------
# C08  the server's copy of a document equals the client's, positions included

def c08(tier):
    c = Check("C08", tier)
    c.rule = ("TLC explores all texts up to the length bound over {1-unit char, 2-byte, 3-byte, astral, CR, LF} with ALL ranged changes over "
              "the position grid (valid and overshooting UTF-16 positions) as transitions, checking PosRoundTrip/OffsetMonotone/"
              "FullTextChangeReplaces, and prints every text with its position table; the harness replays every change of that graph "
              "(count must equal TLC's) into the real server (didOpen, didChange, $/verif/text) and composes batches and full-text changes "
              "from the same tables; simulated sessions of 20 notifications are replayed and their hook traces validated by TraceServer "
              "(server text = client text after every change); prepareRename ranges are converted and sent back (round trip).")
    vlib.build_harness()
    exe = vlib.build_server(False)
    exe_v = vlib.build_server(True)
    cfgs = ["MC_LspDocument_quick"] if tier == "quick" else ["MC_LspDocument_quick", "MC_LspDocument_ins2", "MC_LspDocument_len4"]
    for cfg in cfgs:
        res = vlib.tlc("MC_LspDocument", cfg + ".cfg", "c08_" + cfg, timeout=6000, heap="16g")
        vlib.require_coverage(res, ["Grow", "Change"])
        c.add_tlc(res, cfg)
        r = _srv("docsync", res["out"], "c08_" + cfg, exe_v, ["batches=%d" % (40 if tier == "quick" else 200)], timeout=7200)
        got = r["counters"].get("transitions", 0)
        want = res["coverage"]["Change"][1]
        if got != want:
            raise ToolError("binding: harness enumerated %d changes, TLC %d" % (got, want))
        c.add_harness(r, cfg + " (all changes + batches)", traces=got + r["counters"].get("batches", 0))
        os.remove(res["out"])
    procs, num = (8, 30) if tier == "quick" else (16, 400)
    res = vlib.tlc_sim_multi("MC_LspDocSession", "Sim_LspDocSession.cfg", "c08_sessions", procs, num, 22)
    c.add_tlc(res, "Sim_LspDocSession")
    trace = os.path.join(vlib.OUT, "c08_trace.ndjson")
    r = _srv("docsession", res["out"], "c08_sessions", exe_v, ["trace_out=" + trace])
    c.add_harness(r, "sessions of 20 notifications")
    validate_server_trace(c, trace, "c08", True, "TraceServer(sync sessions)")
    os.remove(res["out"])
    os.remove(trace)
    procs, num = (4, 40) if tier == "quick" else (16, 300)
    res = vlib.tlc_sim_multi("MC_LexerChain", "Sim_LspRoundtrip.cfg", "c08_roundtrip", procs, num, 40)
    c.add_tlc(res, "Sim_LspRoundtrip (texts with tokens)")
    r = _srv("roundtrip", res["out"], "c08_roundtrip", exe)
    c.add_harness(r, "prepareRename range round trip")
    os.remove(res["out"])
    c.assumptions = ["positions inside a surrogate pair are not generated (not positions of the text)",
                     "the independent position model of the harness is checked against the specification's table on every grid position"]
    c.exhaustive = True
    c.finish()


# ---------------------------------------------------------------------------
# C04  the syntax tree is the derivation the grammar mandates

def _grammar_cfgs(tier):
    return (["MC_SplGrammar_n15", "MC_SplGrammar_expr", "MC_SplGrammar_expr2", "MC_SplGrammar_stmt", "MC_SplGrammar_struct20"] if tier == "quick"
            else ["MC_SplGrammar_n18", "MC_SplGrammar_expr", "MC_SplGrammar_expr2", "MC_SplGrammar_stmt", "MC_SplGrammar_struct22"])


def c04(tier):
    c = Check("C04", tier)
    c.rule = ("SplGrammar is the SPL grammar as a leftmost-derivation machine whose output interleaves terminals with open/close "
              "brackets = the mandated tree. TLC enumerates ALL derivations up to the token bound (whole programs; the expression "
              "sub-grammar with every operator and literal spelling; the statement sub-grammar incl. dangling else) and simulates "
              "400-token programs; each is rendered under every layout (canonical, minimal separators, newline/CRLF/tab everywhere, "
              "a comment in every gap, a comment in single gaps in turn) and parsed by the real parser; the AST, projected to the bracket "
              "vocabulary with absolute token ranges, must equal the mandated tree with the node-extent rule, without diagnostics, and "
              "be the same under all layouts. Non-trivial: >= 7 terminals.")
    vlib.build_harness()
    for cfg in _grammar_cfgs(tier):
        res = vlib.tlc("MC_SplGrammar", cfg + ".cfg", "c04_" + cfg, timeout=6000, heap="16g")
        vlib.require_coverage(res, ["Expand", "Shift"])
        c.add_tlc(res, cfg)
        r = _tag_mode(_fe("grammar", res["out"], "c04_" + cfg, ["gaps=%d" % (3 if tier == "quick" else 8)]), "grammar")
        c.add_harness(r, cfg)
        os.remove(res["out"])
    procs, num = (8, 6) if tier == "quick" else (16, 60)
    res = vlib.tlc_sim_multi("MC_SplGrammar", "Sim_SplGrammar.cfg", "c04_sim", procs, num, 5000, timeout=3000)
    c.add_tlc(res, "Sim_SplGrammar (400-token programs)")
    r = _tag_mode(_fe("grammar", res["out"], "c04_sim", ["gaps=%d" % (20 if tier == "quick" else 100)]), "grammar")
    c.add_harness(r, "simulated large programs")
    os.remove(res["out"])
    c.assumptions = ["comments in front of a declaration are its doc comments: the name node of a parameter without `ref` may start "
                     "with or without them", "grammar written from the SPL language report's EBNF as quoted in the property"]
    c.exhaustive = True
    c.finish()


# ---------------------------------------------------------------------------
# C05  a syntax error stays contained in its declaration

def c05(tier):
    c = Check("C05", tier)
    c.rule = ("For every program of the derivation machine with >= 2 global declarations (all up to the token bound, plus simulated "
              "400-token programs), every token of every declaration except the proc/type keywords is deleted, replaced by and "
              "preceded by every token of the 34-spelling SPL token alphabet (Damage action); the real parser must return the "
              "sub-trees of all undamaged declarations unchanged (ranges shifted behind the damage), put every syntax diagnostic "
              "inside the damaged declaration's region, and keep the table entries of the undamaged declarations. Every damage is replayed "
              "twice: tokens only, and with a doc comment line in front of every global declaration (the comment belongs to the "
              "declaration behind it).")
    vlib.build_harness()
    cfg = "MC_SplGrammar_n15" if tier == "quick" else "MC_SplGrammar_n18"
    res = vlib.tlc("MC_SplGrammar", cfg + ".cfg", "c05_" + cfg, timeout=6000, heap="16g")
    vlib.require_coverage(res, ["Expand", "Shift"])
    c.add_tlc(res, cfg)
    r = _tag_mode(_fe("damage", res["out"], "c05_" + cfg), "damage")
    if r["counters"].get("damages_with_syntax_diagnostics", 0) == 0:
        raise ToolError("vacuity: no damage produced a syntax diagnostic")
    c.add_harness(r, cfg + " (all damages)", traces=r["nontrivial"])
    os.remove(res["out"])
    procs, num = (8, 3) if tier == "quick" else (16, 30)
    res = vlib.tlc_sim_multi("MC_SplGrammar", "Sim_SplGrammar.cfg", "c05_sim", procs, num, 5000, timeout=3000)
    c.add_tlc(res, "Sim_SplGrammar (400-token programs)")
    r = _tag_mode(_fe("damage", res["out"], "c05_sim", ["dstride=%d" % (7 if tier == "quick" else 1)]), "damage")
    c.add_harness(r, "simulated large programs", traces=r["nontrivial"])
    os.remove(res["out"])
    c.assumptions = ["programs rendered with one blank between tokens (the damage is a token-level one)",
                     "table entries are compared only when declaration names are unique and the damage does not introduce a declared name"]
    c.exhaustive = True
    c.finish()


# ---------------------------------------------------------------------------
# C09 C10 C11 C17: formatter and folding ranges (one replay mode, failures tagged by property)

def _only_prop(r, prop):
    r = dict(r)
    r["failures"] = [f for f in r["failures"] if f["what"].startswith(prop + ":")]
    r["counters"] = {k: v for k, v in r.get("counters", {}).items() if not k.startswith("class:") or k.startswith("class:" + prop + ":")}
    r["nfail"] = sum(v for k, v in r["counters"].items() if k.startswith("class:"))
    return r


def _format_check(prop, tier, rule, assumptions, layouts, gaps, alloptions):
    c = Check(prop, tier)
    c.rule = rule
    vlib.build_harness()
    exe = vlib.build_server(False)
    cfgs = [("MC_SplGrammar_n15", 2), ("MC_SplGrammar_stmt16", 7), ("MC_SplGrammar_struct20", 10), ("MC_SplGrammar_expr", 7)] if tier == "quick" else \
           [("MC_SplGrammar_n17", 1), ("MC_SplGrammar_stmt", 1), ("MC_SplGrammar_struct22", 8), ("MC_SplGrammar_expr", 1), ("MC_SplGrammar_expr2", 3)]
    for cfg, stride in cfgs:
        res = vlib.tlc("MC_SplGrammar", cfg + ".cfg", prop.lower() + "_" + cfg, timeout=6000, heap="16g")
        vlib.require_coverage(res, ["Expand", "Shift"])
        c.add_tlc(res, cfg)
        r = _srv("format", res["out"], prop.lower() + "_" + cfg, exe,
                 ["layouts=" + layouts, "gaps=%d" % gaps, "alloptions=%d" % alloptions, "stride=%d" % stride,
                  "offset=%d" % (vlib.seed() % stride)], timeout=7200)
        c.add_harness(_only_prop(r, prop), cfg)
        os.remove(res["out"])
    procs, num = (8, 2) if tier == "quick" else (16, 20)
    res = vlib.tlc_sim_multi("MC_SplGrammar", "Sim_SplGrammar.cfg", prop.lower() + "_sim", procs, num, 5000, timeout=3000)
    c.add_tlc(res, "Sim_SplGrammar (400-token programs)")
    r = _srv("format", res["out"], prop.lower() + "_sim", exe, ["layouts=" + layouts, "gaps=%d" % (gaps * 4), "alloptions=%d" % alloptions])
    c.add_harness(_only_prop(r, prop), "simulated large programs")
    os.remove(res["out"])
    c.assumptions = assumptions
    c.exhaustive = True
    c.finish()


def c09(tier):
    _format_check("C09", tier,
                  "Programs of the SplGrammar derivation machine (all up to the token bound, sub-grammars with every operator and literal "
                  "spelling, simulated 400-token programs) are rendered under layouts (canonical, minimal, newline, CRLF, tab, comments in all "
                  "gaps) and opened in the real server; the formatting answer is applied by the harness's own edit model and a lock-step "
                  "matcher walks the result requiring the specified terminal sequence (literals by value), nothing else but white space and "
                  "comments; the edit must be one edit covering 0:0..end (independent position model); diagnostics before/after must agree. "
                  "All ten option sets on the canonical layout.",
                  ["literal tokens compared by value, identifiers/operators by spelling", "diagnostics compared as multisets of messages"],
                  "canon,min,nl,crlf,tab,cmtall", 2, 1)


def c10(tier):
    _format_check("C10", tier,
                  "PlaceComment(g, k): for every program of the derivation machine a distinct comment line is put into EVERY gap at once "
                  "(layout cmtall) and into single gaps in turn (before the first, between any two, after the last terminal); the comments "
                  "collected by the lock-step matcher from the formatted text must be the same sequence (text trimmed). Each lost comment is "
                  "reported with the syntactic SITE of its gap (statement-level node + terminal / child class).",
                  ["comment texts compared after trimming blanks", "known findings are identified by syntactic site: a lost comment at an unlisted site is a violation"],
                  "canon,cmtall", 6, 0)


def c11(tier):
    _format_check("C11", tier,
                  "On the real server, for every program and layout: format, apply the returned edit as a didChange, format again -> must be "
                  "null; null is returned iff the text equals the result; the comment-free layouts of one derivation must format to the same "
                  "text; every line that starts with a specified terminal is indented by exactly unit^depth (unit = tabSize blanks or one "
                  "tab; depth from the specified tree: procedure body, blocks, non-block branches, parameters on own lines). All ten option sets.",
                  ["depth of a line = nesting depth of its first terminal in the specified tree"],
                  "canon,min,nl,crlf,tab,cmtall", 2, 1)


def c17(tier):
    _format_check("C17", tier,
                  "For every program and layout the folding ranges returned by the real server must be exactly one per ProcDec node of the "
                  "specified tree, in source order, startLine = line of the `proc` terminal (after doc comments), endLine = line of the last "
                  "terminal, by the independent position model; start <= end, inside the document, non-overlapping where the procedures do "
                  "not share lines.",
                  ["well-formedness on broken documents is covered by C02's sweep"],
                  "canon,min,nl,crlf,cr,cmtall", 4, 0)


# ---------------------------------------------------------------------------
# C03  diagnostics are exactly what SPL prescribes

ALL_RULES = ["UndefinedType", "NotAType", "RedeclarationAsType", "RedeclarationAsProcedure", "RedeclarationAsParameter",
             "RedeclarationAsVariable", "MustBeAReferenceParameter", "MainIsMissing", "MainIsNotAProcedure", "MainMustNotHaveParameters",
             "AssignmentHasDifferentTypes", "AssignmentRequiresIntegers", "IfConditionMustBeBoolean", "WhileConditionMustBeBoolean",
             "UndefinedProcedure", "CallOfNoneProcedure", "ArgumentsTypeMismatch", "ArgumentMustBeAVariable", "TooFewArguments",
             "TooManyArguments", "OperatorDifferentTypes", "ComparisonNonInteger", "ArithmeticOperatorNonInteger", "UndefinedVariable",
             "NotAVariable", "IndexingNonArray", "IndexingWithNonInteger"]


def c03(tier):
    c = Check("C03", tier)
    c.rule = ("SplStatic is the derivation machine made attribute-directed: a plan phase (global declarations, types before use) and a derive "
              "phase whose productions are guarded by SPL's scoping and typing rules, so every completed behaviour is a well-typed program; "
              "27 fault productions (one per build/semantic message kind) add exactly one violation and bracket the culprit. TLC enumerates "
              "all valid and all single-fault programs up to the token bound and simulates 140-180-token ones; the real analysis must give NO "
              "diagnostic for valid programs under 4 layouts, exactly the faulted rule's kind on the culprit for faulty ones, and the named "
              "missing-token diagnostic inside the declaration for every required token deleted from a valid program; on the server every "
              "published range lies inside the document.")
    vlib.build_harness()
    exe = vlib.build_server(False)
    seen_rules = {}
    sets = [("MC_SplStatic_valid", ["missing=1"]), ("MC_SplStatic_body", ["missing=1"]), ("MC_SplStatic_faults", []), ("MC_SplStatic_faultsarr", [])] if tier == "quick" else \
           [("MC_SplStatic_valid17", ["missing=1"]), ("MC_SplStatic_valid3", ["missing=1"]), ("MC_SplStatic_body22", ["missing=1"]), ("MC_SplStatic_faults18", []), ("MC_SplStatic_faultsarr", [])]
    for cfg, extra in sets:
        res = vlib.tlc("MC_SplStatic", cfg + ".cfg", "c03_" + cfg, timeout=6000, heap="16g")
        vlib.require_coverage(res, ["PlanProc", "PlanDone", "Expand", "Shift", "Act"] + ([] if "body" in cfg or "faultsarr" in cfg else ["PlanType"]))
        c.add_tlc(res, cfg)
        r = _tag_mode(_fe("static", res["out"], "c03_" + cfg, extra), "static")
        c.add_harness(r, cfg)
        for k, v in r["counters"].items():
            if k.startswith("fault:"):
                seen_rules[k[6:]] = seen_rules.get(k[6:], 0) + v
        rs = _srv("diag", res["out"], "c03_diag_" + cfg, exe, ["stride=%d" % (9 if tier == "quick" else 3)])
        c.add_harness(rs, cfg + " (published diagnostics)")
        # implementation -> specification: the real trees judged by SplCheck (plus the repository's own programs)
        nprog = sum(1 for l in open(res["out"], errors="replace") if l.startswith('<<"'))
        rt, tres = validate_static_trace(res["out"], "c03_" + cfg, stride=max(1, nprog // (2500 if tier == "quick" else 20000)), files=(cfg == sets[0][0]))
        c.add_tlc(tres, "TraceStatic on " + cfg)
        c.add_harness(rt, cfg + " (implementation's trees judged by SplCheck)")
        os.remove(res["out"])
    procs, num = (8, 40) if tier == "quick" else (16, 400)
    for cfg in ("Sim_SplStatic_semfaults.cfg", "Sim_SplStatic_argfaults.cfg", "Sim_SplStatic_faults.cfg", "Sim_SplStatic_valid.cfg"):
        # (the focused configuration for argument / parameter type mismatches is small and cheap: four times as many runs)
        res = vlib.tlc_sim_multi("MC_SplStatic", cfg, "c03_" + cfg.replace(".cfg", ""), procs, num * (4 if "argfaults" in cfg else 1), 3000, timeout=3000)
        c.add_tlc(res, cfg)
        r = _tag_mode(_fe("static", res["out"], "c03_" + cfg.replace(".cfg", ""), ["missing=1"]), "static")
        c.add_harness(r, cfg)
        for k, v in r["counters"].items():
            if k.startswith("fault:"):
                seen_rules[k[6:]] = seen_rules.get(k[6:], 0) + v
        os.remove(res["out"])
    # informational (outside the property: programs with MANY violations; the cascade policy is unspecified): syntactically valid
    # programs of SplGrammar with arbitrary names, the implementation's trees judged by SplCheck
    res = vlib.tlc("MC_SplGrammar", "MC_SplGrammar_n15.cfg", "c03_multi", timeout=3000, heap="16g")
    rt, tres = validate_static_trace(res["out"], "c03_multi", stride=25 if tier == "quick" else 3)
    c.add_tlc(tres, "TraceStatic on programs with many violations (informational)")
    c.notes["programs_with_many_violations"] = {
        "what": "syntactically valid programs of SplGrammar (names not resolved by construction): kinds reported by the implementation vs "
                "rules SplCheck finds violated in the implementation's tree; differences are NOT failures (cascade policy is unspecified)",
        "judged": rt["cases"], "judgement_differs": len([f for f in rt["failures"] if f["what"] == "tree-judgement-differs"]),
        "examples": [f["detail"] for f in rt["failures"] if f["what"] == "tree-judgement-differs"][:3]}
    os.remove(res["out"])
    missing = [x for x in ALL_RULES if seen_rules.get(x, 0) == 0]
    c.notes["fault_programs_per_rule"] = seen_rules
    if len(missing) > (3 if tier == "quick" else 0):
        raise ToolError("vacuity: fault productions never exercised: %s" % missing)
    c.assumptions = ["SPL rules are my reading of the language report as quoted in the property, stated twice: as guards of the generator "
                     "SplStatic and as judgements of the checker SplCheck; TLC's invariant CheckAgrees requires on every finished program "
                     "that SplCheck finds no violation in a program generated as valid and exactly the faulted rule otherwise",
                     "MainIsMissing may be reported anywhere in the document", "missing-token faults: the diagnostic must name the token and lie "
                     "in the global declaration that lacks it; deletions that leave an equal neighbouring token are not faults"]
    c.exhaustive = True
    c.finish()


REPO_PROGRAMS = ["spl_frontend/tests/programs/acker.spl", "spl_frontend/tests/programs/bigtest.spl",
                 "spl_frontend/tests/programs/test1.spl", "spl_frontend/tests/programs/test2.spl"]


def validate_static_trace(cases_out, tag, stride=1, files=False):
    """Implementation -> specification: export the real trees / diagnostic kinds (fe export) and let TLC judge
    them with SplCheck (TraceStatic).  Returns (harness-like result, tlc result)."""
    nd = os.path.join(vlib.OUT, tag + ".export.ndjson")
    extra = ["ndjson=" + nd, "stride=%d" % stride]
    if files:
        extra.append("files=" + ",".join(os.path.join(vlib.REPO, f) for f in REPO_PROGRAMS))
    r = _fe("export", cases_out, tag + "_export", extra)
    nlines = sum(1 for _ in open(nd))
    res = vlib.tlc("TraceStatic", "TraceStatic.cfg", tag + "_tracestatic", workers=1, coverage=False, timeout=3000, heap="8g",
                   env_extra={"TRACE": nd})
    fails = []
    with open(res["out"], errors="replace") as f:
        for line in f:
            m = re.match(r'^<<"REJECT", "(.*)">>', line.strip())
            if m:
                d = json.loads(m.group(1).replace('\\"', '"').replace("\\\\", "\\"))
                fails.append({"what": "tree-judgement-differs", "site": "", "case": None,
                              "detail": {"line": d["line"], "name": d["name"], "implementation_reports": d["reported"],
                                         "SplCheck_on_the_implementation's_tree": d["judged"], "tree_well_formed": d["wellformed"],
                                         "trace_file": nd}})
    if res["distinct"] != nlines + 1:
        raise ToolError("TraceStatic consumed %d of %d lines" % (res["distinct"] - 1, nlines))
    out = {"cases": nlines, "evaluations": nlines, "nontrivial": nlines, "nfail": len(fails) + r["nfail"], "failures": fails[:200] + r["failures"],
           "counters": dict(r.get("counters", {})), "samples": []}
    return out, res


# ---------------------------------------------------------------------------
# C12 - C16: navigation and information features on well-typed programs

def _features_check(prop, tier, rule, assumptions, layouts):
    c = Check(prop, tier)
    c.rule = rule
    vlib.build_harness()
    exe = vlib.build_server(False)
    sets = [("MC_SplStatic_valid", 4), ("MC_SplStatic_valid3s", 1), ("MC_SplStatic_shadow", 4), ("MC_SplStatic_shadowt", 8), ("MC_SplStatic_body", 5), ("MC_SplStatic_expr18", 12)] if tier == "quick" \
        else [("MC_SplStatic_valid17", 3), ("MC_SplStatic_valid3", 2), ("MC_SplStatic_shadow", 1), ("MC_SplStatic_shadowt25", 8), ("MC_SplStatic_body22", 3), ("MC_SplStatic_expr20", 25), ("MC_SplStatic_types", 30)]
    for cfg, stride in sets:
        res = vlib.tlc("MC_SplStatic", cfg + ".cfg", prop.lower() + "_" + cfg, timeout=6000, heap="16g")
        vlib.require_coverage(res, ["PlanProc", "PlanDone", "Expand", "Shift", "Act"] + ([] if "shadow" in cfg or "body" in cfg or "expr" in cfg else ["PlanType"]))
        c.add_tlc(res, cfg)
        r = _srv("features", res["out"], prop.lower() + "_" + cfg, exe,
                 ["props=" + prop, "layouts=" + layouts, "stride=%d" % stride, "offset=%d" % (vlib.seed() % stride)], timeout=7200)
        c.add_harness(_only_prop(r, prop), cfg)
        os.remove(res["out"])
    procs, num = (8, 12) if tier == "quick" else (16, 150)
    res = vlib.tlc_sim_multi("MC_SplStatic", "Sim_SplStatic_valid.cfg", prop.lower() + "_sim", procs, num, 3000, timeout=3000)
    c.add_tlc(res, "Sim_SplStatic_valid (180-token programs, 3-5 declarations, statement shapes balanced)")
    r = _srv("features", res["out"], prop.lower() + "_sim", exe, ["props=" + prop, "layouts=" + layouts], timeout=7200)
    c.add_harness(_only_prop(r, prop), "simulated large programs")
    os.remove(res["out"])
    c.assumptions = assumptions + ["types are declared before use; a local never carries the name of its OWN procedure (the server resolves the name in a procedure's header through the local table as well, an observed defect); the situations of the site-identified known findings are tagged, everything else is a violation"]
    c.exhaustive = True
    c.finish()


_FEAT_COMMON = ("Well-typed programs of SplStatic: ALL up to the token bound with 1-3 declarations (valid, valid3s); all with locals named like "
                "declared procedures, declared types and predefined entities (shadow, shadowt); ALL statement structures of a one-procedure "
                "program with minimal expressions up to 20-22 tokens (body); all one-procedure programs with the full expression grammar up "
                "to 18-20 tokens (expr18/20); simulated 180-token programs with 3-5 declarations in any order and balanced statement shapes. "
                "Every identifier terminal carries the declaration it is bound to and its role, the case carries the declaration table (kind, "
                "name, ref, resolved type, creating type declaration); generator and the independent checker SplCheck agree on every program "
                "(invariant CheckAgrees); expression literals are re-spelled from a pool of all literal lexeme classes. ")


def c12(tier):
    _features_check("C12", tier, _FEAT_COMMON +
                    "For every identifier at its first, middle and last column: declaration and definition must return exactly the range of the "
                    "bound declaration's name (independent position model), implementation the same for procedures only, typeDefinition the "
                    "named type declaration or the declaration that created the variable's array type; predefined entities, int, anonymous "
                    "arrays and non-identifier tokens yield null, never an error or a dead server.",
                    ["3 cursor columns per identifier; non-identifier tokens sampled every third token"], "canon,doc,nl,cr")


def c13(tier):
    _features_check("C13", tier, _FEAT_COMMON +
                    "For every identifier: references (includeDeclaration) = the other terminals with the same binding; rename returns one edit "
                    "per terminal of the binding; applying it (own edit model) must equal the specification's re-rendering, yield the same number "
                    "of diagnostics, bind the same occurrences together again, and renaming back restores the text; prepareRename answers the "
                    "identifier's range exactly when rename offers edits.",
                    ["renaming `main` is excluded from the diagnostics comparison (it legitimately makes main missing)",
                     "references of predefined names are not compared"], "canon,nl")


def c14(tier):
    _features_check("C14", tier, _FEAT_COMMON +
                    "Hover on every identifier: range = identifier extent, text contains the bound declaration's signature components (proc name "
                    "and parameter list / [ref] name: resolved type / resolved type and name of a type) followed by its doc comment lines "
                    "(layout `doc` puts a comment before every declaration). Signature help at every token boundary inside every call's "
                    "argument list: callee signature, one parameter entry per declared parameter, activeParameter = number of top-level commas "
                    "before the cursor.",
                    ["text compared by required components with white space normalised", "parameter names of predefined procedures are not compared"],
                    "canon,doc,nl")


def c15(tier):
    _features_check("C15", tier, _FEAT_COMMON +
                    "The semantic-token delta stream (legend from the initialize answer) must decode to strictly increasing, non-overlapping "
                    "tokens each coinciding with one lexical token (UTF-16 length; a comment may include its line feed); keywords, numbers, "
                    "comments by lexical kind; identifiers by the kind of their binding with the declaration modifier exactly on role = decl.",
                    ["well-formedness on broken documents belongs to the C02 sweep"], "canon,doc,nl,cr,cmtall,cmtuni")


def c16(tier):
    _features_check("C16", tier, _FEAT_COMMON +
                    "Completion at every statement start with a non-empty preceding gap (VARIABLE items = parameters+locals of the enclosing "
                    "procedure, FUNCTION items = declared + 10 predefined procedures, never a name local to another procedure), after `:=` and "
                    "the `(` of calls/conditions (variables), after `:` in parameter/variable declarations (STRUCT items = declared types + "
                    "int), and in top-level gaps (only proc/type/main starters).",
                    ["items compared per kind as label sets; snippets and keywords are ignored"], "canon,nl,min")


# ---------------------------------------------------------------------------
# C01  incremental re-analysis equals analysis from scratch

def c01(tier):
    c = Check("C01", tier)
    c.rule = ("SplSession continues finished programs of the derivation machine with edits: EditTokens(i, j, repl) over the 36-spelling token "
              "alphabet (plus, harness-side, literals outside the core and the comment starter `//` replacing / preceding every token), "
              "character-level edits that change token boundaries or comment the rest of the line out, batches. TLC explores EVERY token edit of every program up to "
              "the token bound as a transition (edit counts must agree with the replay) and simulates histories of 4 edits on 120-token "
              "programs; further base documents: all single-fault typed programs (documents carrying build/semantic diagnostics), every "
              "single-token damage of every small program (documents carrying error nodes; two-step histories), and all texts of the "
              "lexer's look-ahead alphabet with all character edits (soup). After EVERY step AnalyzedSource::update must equal "
              "AnalyzedSource::new(text) in tokens, tree with attached diagnostics, symbol table and reported errors (the property's own "
              "definition of the right answer). Server level: 1-edit histories as didChange, $/verif/text and final diagnostics vs a fresh "
              "open, hook traces validated by TraceServer (inc_eq_fresh at every change).")
    vlib.build_harness()
    exe_v = vlib.build_server(True)
    # (1) exhaustive single edits with edit-count binding
    cfg = "MC_SplSession_small" if tier == "quick" else "MC_SplSession_n12"
    res = vlib.tlc("MC_SplSession", cfg + ".cfg", "c01_" + cfg, timeout=6000, heap="16g")
    vlib.require_coverage(res, ["Open", "AnyTokenEdit"])
    c.add_tlc(res, cfg)
    r = _tag_mode(_fe("session", res["out"], "c01_" + cfg), "session")
    want = res["coverage"]["AnyTokenEdit"][0]     # distinct successor states = distinct (program, edit) pairs
    if r["counters"].get("edits", 0) != want:
        raise ToolError("binding: harness enumerated %d token edits, TLC %d" % (r["counters"].get("edits", 0), want))
    c.add_harness(r, cfg + " (every token edit)", traces=want)
    os.remove(res["out"])
    # (2) larger valid programs and faulty programs as base documents, single edits (strided)
    for module, cfg2, stride in ([("MC_SplGrammar", "MC_SplGrammar_n15", 40), ("MC_SplStatic", "MC_SplStatic_faults", 60)] if tier == "quick"
                                 else [("MC_SplGrammar", "MC_SplGrammar_n15", 1), ("MC_SplGrammar", "MC_SplGrammar_stmt", 8), ("MC_SplStatic", "MC_SplStatic_faults18", 3)]):
        res = vlib.tlc(module, cfg2 + ".cfg", "c01_" + cfg2, timeout=6000, heap="16g")
        c.add_tlc(res, cfg2)
        r = _tag_mode(_fe("session", res["out"], "c01_" + cfg2, ["estride=%d" % stride, "seed=%d" % vlib.seed()]), "session")
        c.add_harness(r, cfg2 + " (single edits)", traces=r["counters"].get("edits", 0))
        if cfg2 == "MC_SplGrammar_n15":
            # (3) two-step histories: every damage of a small program is a base document (documents with error nodes)
            sm = os.path.join(vlib.OUT, "c01_small.out")
            with open(res["out"], "rb") as fi, open(sm, "wb") as fo:
                for i, line in enumerate(l for l in fi if l.startswith(b'<<"PROG"')):
                    if i % (97 if tier == "quick" else 11) == 0:
                        fo.write(line)
            r = _tag_mode(_fe("session2", sm, "c01_twostep", ["estride=%d" % (11 if tier == "quick" else 3), "dstride=%d" % (7 if tier == "quick" else 2)]), "session2")
            c.add_harness(r, "two-step histories (damaged base documents)", traces=r["counters"].get("edits", 0))
            os.remove(sm)
        os.remove(res["out"])
    # (4) soup
    res = vlib.tlc("MC_LexerInc", ("MC_LexerInc_soup" if tier == "quick" else "MC_LexerInc_quick") + ".cfg", "c01_soup", timeout=6000, coverage=False)
    c.add_tlc(res, "MC_LexerInc (soup texts, all character edits)")
    r = _tag_mode(_fe("soup", res["out"], "c01_soup"), "soup")
    if r["counters"].get("edits", 0) != res["generated"] - 1:
        raise ToolError("binding: soup replayed %d edits, TLC %d" % (r["counters"].get("edits", 0), res["generated"] - 1))
    c.add_harness(r, "soup (all character edits of all short texts)", traces=r["counters"].get("edits", 0))
    os.remove(res["out"])
    # (5) simulated histories, in process
    procs, num = (8, 25) if tier == "quick" else (16, 400)
    res = vlib.tlc_sim_multi("MC_SplSession", "Sim_SplSession.cfg", "c01_hist", procs, num, 3000, timeout=3000)
    c.add_tlc(res, "Sim_SplSession (histories of 4 edits: token edits, batches, one character edit)")
    r = _tag_mode(_fe("history", res["out"], "c01_hist"), "history")
    c.add_harness(r, "simulated histories")
    os.remove(res["out"])
    # (6) server level
    procs, num = (4, 25) if tier == "quick" else (16, 150)
    res = vlib.tlc_sim_multi("MC_SplSession", "Sim_SplSession1.cfg", "c01_hist1", procs, num, 3000, timeout=3000)
    c.add_tlc(res, "Sim_SplSession1 (1-edit histories for the server)")
    trace = os.path.join(vlib.OUT, "c01_trace.ndjson")
    r = _srv("histsession", res["out"], "c01_srv", exe_v, ["trace_out=" + trace])
    c.add_harness(r, "server: didChange histories, text + diagnostics vs fresh open")
    validate_server_trace(c, trace, "c01", True, "TraceServer(inc_eq_fresh at every change)")
    os.remove(res["out"])
    os.remove(trace)
    c.assumptions = ["the oracle is definitional: the same code analysing the resulting text from scratch (the property defines it so)",
                     "known finding C01-lost-subparse-diagnostic is identified by its signature (tree equal, an `expected ...` diagnostic lost or "
                     "re-attached); any divergence with another signature is a violation",
                     "token edits are applied to the canonical rendering (one blank between tokens)"]
    c.exhaustive = True
    c.finish()


# ---------------------------------------------------------------------------
# C02  the server never crashes or goes silent

def _deep_docs(path, depths):
    with open(path, "w") as f:
        for d in depths:
            docs = [
                ("blocks", "proc main() { " + "{ " * d + "} " * d + "}"),
                ("brackets", "proc main() { var x: int; x := " + "(" * d + "1" + ")" * d + "; }"),
                ("unary", "proc main() { var x: int; x := " + "- " * d + "1; }"),
                ("index", "proc main() { var a: array [2] of int; a" + "[a" * d + "[0]" + "]" * d + " := 1; }"),
                ("ifelse", "proc main() { " + "if (1 < 2) ; else " * d + "; }"),
                ("while", "proc main() { " + "while (1 < 2) " * d + "; }"),
                ("arraytype", "type t = " + "array [2] of " * d + "int;"),
                ("binary", "proc main() { var x: int; x := 1" + " + 1" * d + "; }"),
                ("unterminated", "proc main() { " + "( " * d),
                ("params", "proc p(" + ", ".join("a%d: int" % i for i in range(d)) + ") { }"),
                ("comments", "// c\n" * d + "proc main() { }" + "\n// t" * d),
                ("calls", "proc main() { " + "main(" * d + ")" * d + "; }"),
            ]
            for k, t in docs:
                f.write(json.dumps({"deep": "%s/%d" % (k, d), "doc": t}) + "\n")


def c02(tier):
    c = Check("C02", tier)
    c.rule = ("Documents of every generator of the specification suite (all soup texts up to length 3 over the lexical alphabet incl. "
              "unterminated literals/comments and multi-byte characters; lexeme chains with CRLF; all programs of SplGrammar under canonical, "
              "CRLF and non-ASCII-comment layouts; sampled single-token damages; single-fault typed programs; SplSession edit histories; "
              "iterated Block/Bracketed/Unary/ArrayAccess/If/While/ArrayType productions nested up to 150 deep) are opened in the real server "
              "and all 13 requests are sent at every token boundary, every gap and positions outside the text, before and after every edit. "
              "Specified answer shape (LspServer: every request answered, in order): one response per id carrying `result` and no `error`; "
              "the process then answers shutdown and exits 0. A dead server is re-queried one request at a time to name the killing request.")
    vlib.build_harness()
    exe = vlib.build_server(False)
    q = tier == "quick"
    sources = [("MC_Lexer", "MC_Lexer_quick.cfg", 9 if q else 1, "soup texts"),
               ("MC_SplGrammar", "MC_SplGrammar_n12.cfg" if q else "MC_SplGrammar_n15.cfg", 3 if q else 4, "programs + damages"),
               ("MC_SplStatic", "MC_SplStatic_faults.cfg", 60 if q else 6, "single-fault typed programs + damages")]
    for module, cfg, stride, label in sources:
        res = vlib.tlc(module, cfg, "c02_" + cfg.replace(".cfg", ""), timeout=6000, heap="16g")
        c.add_tlc(res, cfg)
        r = _srv("sweep", res["out"], "c02_" + cfg.replace(".cfg", ""), exe, ["stride=%d" % stride, "offset=%d" % (vlib.seed() % stride),
                                                                               "damages=%d" % (2 if q else 6)], timeout=7200)
        c.add_harness(r, label, traces=r["counters"].get("documents", 0))
        os.remove(res["out"])
    procs, num = (4, 15) if q else (16, 200)
    res = vlib.tlc_sim_multi("MC_LexerChain", "Sim_LspRoundtrip.cfg", "c02_chains", procs, num, 40)
    c.add_tlc(res, "lexeme chains (multi-byte, CRLF)")
    r = _srv("sweep", res["out"], "c02_chains", exe)
    c.add_harness(r, "lexeme chains", traces=r["counters"].get("documents", 0))
    os.remove(res["out"])
    procs, num = (4, 10) if q else (16, 120)
    res = vlib.tlc_sim_multi("MC_SplSession", "Sim_SplSession.cfg", "c02_hist", procs, num, 3000, timeout=3000)
    c.add_tlc(res, "edit histories (SplSession)")
    r = _srv("sweep", res["out"], "c02_hist", exe, ["maxpos=%d" % (30 if q else 80)])
    c.add_harness(r, "edit histories: sweep after every edit", traces=r["counters"].get("documents", 0))
    os.remove(res["out"])
    deep = os.path.join(vlib.OUT, "c02_deep.ndjson")
    _deep_docs(deep, (20, 60, 150))
    r = _srv("sweep", deep, "c02_deep", exe)
    c.add_harness(r, "deeply nested documents (depth 20, 60, 150)", traces=r["counters"].get("documents", 0))
    os.remove(deep)
    # in-process: analysis of every soup text and every character edit returns without panic
    res = vlib.tlc("MC_LexerInc", "MC_LexerInc_soup.cfg", "c02_soup", timeout=6000, coverage=False)
    c.add_tlc(res, "MC_LexerInc_soup")
    r = _tag_mode(_fe("soup", res["out"], "c02_soup"), "soup")
    r["failures"] = [f for f in r["failures"] if f["what"] == "panic"]
    r["counters"] = {k: v for k, v in r["counters"].items() if not k.startswith("class:") or k.startswith("class:panic")}
    r["nfail"] = sum(v for k, v in r["counters"].items() if k.startswith("class:"))
    c.add_harness(r, "in-process new/update/errors on soup (panics only)", traces=r["counters"].get("edits", 0))
    os.remove(res["out"])
    c.assumptions = ["termination is checked by a time bound (120 s per pipelined document session), not proved",
                     "nesting bound 150; deep documents are harness-written iterations of SplGrammar productions",
                     "requests are well-formed (valid params for every method)"]
    c.exhaustive = False
    c.finish()
