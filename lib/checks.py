"""Per-property check procedures (see DESIGN.md section 5)."""
import json
import os

import vlib
from vlib import Check, ToolError, log


def _fe(mode, cases, name, extra=None):
    res = os.path.join(vlib.OUT, name + ".result.json")
    vlib.run_harness("fe", [mode, cases, res] + (extra or []))
    return vlib.harness_result(res)


def replay(prop, path):
    """Re-run one recorded violation."""
    with open(path) as f:
        rec = json.load(f)
    mode = rec.get("mode")
    if not mode:
        raise ToolError("replay file has no mode")
    vlib.build_harness()
    tmp = os.path.join(vlib.OUT, "replay_case.ndjson")
    with open(tmp, "w") as fo:
        fo.write(json.dumps({"tag": rec.get("tag", "CASE"), "case": rec["case"]}) + "\n")
        if rec.get("meta"):
            fo.write(json.dumps({"tag": "META", "case": rec["meta"]}) + "\n")
    binname = "srv" if mode.startswith("srv:") else "fe"
    res = os.path.join(vlib.OUT, "replay_case.result.json")
    vlib.run_harness(binname, [mode.split(":")[-1], tmp, res])
    r = vlib.harness_result(res)
    for f in r["failures"]:
        log("  %s %s %s" % (f["what"], f.get("site"), json.dumps(f["detail"])[:1500]))
    if r["nfail"]:
        log("VIOLATION property=%s replay=%s" % (prop, path))
        raise SystemExit(1)
    log("replay: no failure")
    raise SystemExit(0)


def _tag_mode(r, mode):
    for f in r["failures"]:
        f["mode"] = mode
    return r


# ---------------------------------------------------------------------------
# C06  tokenisation is lossless and follows the lexical grammar

def c06(tier):
    c = Check("C06", tier)
    c.rule = ("TLC enumerates every text up to the length bound over an alphabet covering every decision of the lexical "
              "grammar, checks Tiling/LongestMatch/KeywordBoundary of the reference lexer on each and prints text + Lex(text); "
              "each is replayed into lexer::lex (tiling for every text, token-by-token conformance for lexically valid ones). "
              "Lexeme chains (simulation) give long valid texts; random long texts lexed by the code are validated by TLC "
              "against Lex (TraceLexer). A case is non-trivial if it has at least one token besides Eof.")
    vlib.build_harness()
    cfgs = ["MC_Lexer_quick", "MC_Lexer_core4"] if tier == "quick" else ["MC_Lexer_full4", "MC_Lexer_core5"]
    for cfg in cfgs:
        res = vlib.tlc("MC_Lexer", cfg + ".cfg", "c06_" + cfg, timeout=3000)
        vlib.require_coverage(res, ["Next"])
        c.add_tlc(res, cfg)
        r = _tag_mode(_fe("lexer", res["out"], "c06_" + cfg), "lexer")
        if r["cases"] != res["distinct"]:
            raise ToolError("binding: replayed %d cases but TLC found %d states" % (r["cases"], res["distinct"]))
        c.add_harness(r, cfg)
        os.remove(res["out"])
    # lexeme chains
    procs, num = (8, 60) if tier == "quick" else (16, 1500)
    res = vlib.tlc_sim_multi("MC_LexerChain", "Sim_LexerChainLex.cfg", "c06_chain", procs, num, 40)
    c.add_tlc(res, "lexeme-chains(simulation)")
    r = _tag_mode(_fe("lexer", res["out"], "c06_chain"), "lexer")
    c.add_harness(r, "lexeme-chains")
    os.remove(res["out"])
    # implementation -> specification
    n = 400 if tier == "quick" else 6000
    trace = os.path.join(vlib.OUT, "c06_lextrace.ndjson")
    vlib.run_harness("fe", ["lextrace", trace, os.path.join(vlib.OUT, "c06_lextrace.json"), "n=%d" % n, "seed=%d" % vlib.seed()])
    res = vlib.tlc("TraceLexer", "TraceLexer.cfg", "c06_trace", workers=1, env_extra={"TRACE": trace}, expect_fail=True,
                   coverage=False, timeout=3000)
    c.add_tlc(res, "TraceLexer(recorded texts)")
    if not res["ok"]:
        rej = ""
        with open(res["out"], errors="replace") as f:
            for line in f:
                if "REJECTED" in line:
                    rej = line.strip()
        if not rej:
            raise ToolError("TraceLexer failed without rejection: %s" % res["errors"][:2])
        import re
        m = re.search(r"REJECTED at record\", (\d+)", rej)
        idx = int(m.group(1)) if m else 1
        with open(trace) as f:
            rec = f.read().splitlines()[idx - 1]
        c.failures.append({"what": "trace-rejected", "site": "", "mode": "lextrace", "part": "TraceLexer",
                           "detail": {"why": rej, "record_index": idx}, "case": json.loads(rec)})
        c.nfail_total += 1
    else:
        c.traces += n
        c.evaluations += n
        c.parts.append({"part": "TraceLexer", "records_validated": n})
    c.assumptions = ["Unicode is represented by one character per UTF-8 length class (U+0142, U+20AC, U+1F600)",
                     "integer literals beyond 9 decimal / 7 hex digits are outside TLC's 32-bit integers and only tiled",
                     "a comment token may or may not include its line terminator"]
    c.exhaustive = True
    c.finish()


# ---------------------------------------------------------------------------
# C07  incremental lexing = batch lexing + truthful window

def c07(tier):
    c = Check("C07", tier)
    c.rule = ("TLC explores the graph whose states are all texts up to the length bound and whose transitions are ALL edits "
              "(lo, hi, inserted string), asserting the contract for the algorithm model on every transition; the harness replays "
              "every transition of that graph into lexer::update and evaluates the contract (tokens = fresh lex incl. errors, window "
              "truthful). The number of replayed transitions must equal TLC's. Edit chains on long texts come from simulation.")
    vlib.build_harness()
    cfgs = ["MC_LexerInc_quick"] if tier == "quick" else ["MC_LexerInc_quick", "MC_LexerInc_len4", "MC_LexerInc_len4ins2"]
    for cfg in cfgs:
        # (-coverage makes TLC's cost model exhaust the heap on the recursive lexer operators;
        #  vacuity is guarded by the transition count instead: the only action is Edit)
        res = vlib.tlc("MC_LexerInc", cfg + ".cfg", "c07_" + cfg, timeout=6000, coverage=False)
        if res["generated"] <= res["distinct"]:
            raise ToolError("vacuous model run: no Edit transitions")
        c.add_tlc(res, cfg)
        r = _tag_mode(_fe("lexinc", res["out"], "c07_" + cfg), "lexinc")
        got = r["counters"].get("transitions", 0)
        if got != res["generated"] - 1:
            raise ToolError("binding: harness replayed %d transitions, TLC generated %d" % (got, res["generated"] - 1))
        c.add_harness(r, cfg, traces=got)
        os.remove(res["out"])
    procs, num = (8, 60) if tier == "quick" else (16, 1500)
    res = vlib.tlc_sim_multi("MC_LexerChain", "Sim_LexerChain.cfg", "c07_chain", procs, num, 40)
    c.add_tlc(res, "edit-chains(simulation)")
    paths = vlib.split_tags(res["out"], ["CHAIN"])
    r = _tag_mode(_fe("lexchain", paths["CHAIN"], "c07_chain"), "lexchain")
    c.add_harness(r, "edit-chains")
    os.remove(res["out"])
    os.remove(paths["CHAIN"])
    # the design check has teeth: the pinned look-ahead table must be refuted by TLC
    res = vlib.tlc("MC_LexerInc", "MC_LexerInc_pinned.cfg", "c07_pinned", expect_fail=True, coverage=False, timeout=600)
    if res["ok"]:
        raise ToolError("vacuity: TLC did not refute the pinned look-ahead table")
    c.parts.append({"part": "design-check", "pinned_lookahead_table_refuted_by_TLC": True})
    c.assumptions = ["texts over a 13-character alphabet covering every look-ahead class",
                     "old tokens are lexer::lex(old text); C06 ties those to the specification"]
    c.exhaustive = True
    c.finish()
