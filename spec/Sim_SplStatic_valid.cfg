SPECIFICATION Spec
CONSTANTS
  MaxTok = 180
  MaxDecls = 4
  MinDecls = 3
  TypeNames <- TNc
  ProcNames <- PNc
  VarNames <- VNc
  Faults <- NoFaults
  OnlyFaulty = FALSE
  Grow = 110
  Shadowing = TRUE
  ForceAfter = 0
  Slim = FALSE
  Balance = TRUE
CONSTRAINT SizeBound
INVARIANTS Balanced UsesBound CheckAgrees EmitInv
CHECK_DEADLOCK FALSE
