SPECIFICATION Spec
CONSTANTS
  MaxTok = 140
  MaxDecls = 4
  MinDecls = 3
  TypeNames <- TN
  ProcNames <- PN
  VarNames <- VN
  Faults <- NoFaults
  OnlyFaulty = FALSE
  Grow = 50
  Shadowing = TRUE
  ForceAfter = 0
CONSTRAINT SizeBound
INVARIANTS Balanced UsesBound EmitInv
CHECK_DEADLOCK FALSE
