SPECIFICATION TSpec
CONSTANTS
  MaxMsgs = 100000
  DocCap = 34
  IoCap = 34
  DiagCap = TRUE
  PathOnly = FALSE
  AbruptExit = FALSE
  SpawnOnFull = FALSE
  StartMain = FALSE
  URIs <- TraceURIs
  Alphabet <- MsgTypes
  NoDoc <- TraceNoDoc
  Apply <- TraceApply
CONSTRAINT Furthest
POSTCONDITION Accepted
CHECK_DEADLOCK FALSE
