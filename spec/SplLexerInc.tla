---------------------------- MODULE SplLexerInc ----------------------------
(* Incremental lexing.                                                      *)
(*                                                                          *)
(* CONTRACT (what property C07 states): after replacing the characters      *)
(* [lo, hi) of `old` by `ins`,                                              *)
(*     result.toks = Lex(new)                                               *)
(*     the window w = [ws, we) / wi is truthful:                            *)
(*        tokens before ws are the old ones untouched,                      *)
(*        tokens from ws + wi on are the old ones from we on, shifted by    *)
(*        the length difference (errors move with their tokens).            *)
(*                                                                          *)
(* ALGORITHM MODEL (what lexer::update does, one definition per step of     *)
(* the code): per-kind look-ahead table LA, head = tokens not affected by   *)
(* the start of the change, reusable = old tokens starting at or after the  *)
(* end of the change (shifted), re-lex from the end of the head until a     *)
(* re-lexed token is one of the reusable ones.                              *)
(*                                                                          *)
(* TLC explores the graph whose states are all texts up to MaxLen and whose *)
(* transitions are ALL edits, and asserts the contract for the algorithm    *)
(* model on every transition.  Deviation switches reproduce the pinned      *)
(* implementation: LA table without look-ahead for Unknown/Comment,         *)
(* ShiftErrors = FALSE (error positions of reused tail tokens not moved),   *)
(* CommentNeedsNewline (SplLexer).                                          *)
EXTENDS SplLexer, Integers, SequencesExt

\* look-ahead (in characters = bytes of ASCII; see DESIGN) per token kind
LAFixed(k) ==
  IF k \in {"If","Else","While","Array","Of","Proc","Ref","Type","Var","Colon","Divide","Lt","Gt",
            "Int","Ident","Hex","Char","Unknown","Comment"} THEN 1 ELSE 0
\* the table of the pinned tree (tokens.rs look_ahead): Unknown and Comment have none
LAPinned(k) ==
  IF k \in {"If","Else","While","Array","Of","Proc","Ref","Type","Var","Colon","Divide","Lt","Gt",
            "Int","Ident","Hex","Char"} THEN 1 ELSE 0

\* deviation switches (overridden in *_pinned.cfg)
LA(k) == LAFixed(k)
ShiftErrors == TRUE

Shift(t, dB, dC) ==
  [t EXCEPT !.b = @ + dB, !.e = @ + dB, !.cb = @ + dC, !.ce = @ + dC,
            !.ep = IF @ = 0 \/ ~ShiftErrors THEN @ ELSE @ + dB]
\* what the contract demands of a shifted token: everything moves
ShiftAll(t, dB, dC) ==
  [t EXCEPT !.b = @ + dB, !.e = @ + dB, !.cb = @ + dC, !.ce = @ + dC,
            !.ep = IF @ = 0 THEN 0 ELSE @ + dB]

Apply(old, lo, hi, ins) == SubSeq(old, 1, lo) \o ins \o SubSeq(old, hi + 1, Len(old))

\* lo, hi: character OFFSETS (0-based) into old, lo <= hi
IncLex(old, oldToks, lo, hi, ins) ==
  LET new   == Apply(old, lo, hi, ins)
      loB   == ByteOff(old, lo + 1)
      hiB   == ByteOff(old, hi + 1)
      dB    == Bytes(ins) - (hiB - loB)
      dC    == Len(ins) - (hi - lo)
      toks  == SubSeq(oldToks, 1, Len(oldToks) - 1)                \* without Eof
      head  == SelectSeq(toks, LAMBDA t : t.e + LA(t.k) <= loB)
      rest  == SelectSeq(toks, LAMBDA t : ~(t.e + LA(t.k) <= loB))
      reuse == [n \in 1..Len(SelectSeq(rest, LAMBDA t : t.b >= hiB)) |->
                  Shift(SelectSeq(rest, LAMBDA t : t.b >= hiB)[n], dB, dC)]
      startC == IF head = <<>> THEN 1 ELSE head[Len(head)].ce
      sufAll == LexFrom(new, startC)
      suffix == SubSeq(sufAll, 1, Len(sufAll) - 1)
      hits   == {n \in 1..Len(suffix) : \E m \in 1..Len(reuse) : reuse[m] = suffix[n]}
      k      == IF hits = {} THEN Len(suffix) + 1 ELSE CHOOSE n \in hits : \A m \in hits : n <= m
      fresh  == SubSeq(suffix, 1, k - 1)
      tail   == IF fresh = <<>> THEN reuse
                ELSE SelectSeq(reuse, LAMBDA t : t.b >= fresh[Len(fresh)].e)
      eof    == sufAll[Len(sufAll)]
  IN [ toks |-> head \o fresh \o tail \o <<eof>>,
       ws |-> Len(head), we |-> Len(toks) - Len(tail), wi |-> Len(fresh),
       new |-> new, dB |-> dB, dC |-> dC ]

Contract(oldToks, r) ==
  /\ r.toks = Lex(r.new)
  /\ r.ws <= r.we /\ r.we <= Len(oldToks) - 1
  /\ Len(r.toks) = Len(oldToks) - (r.we - r.ws) + r.wi
  /\ SubSeq(r.toks, 1, r.ws) = SubSeq(oldToks, 1, r.ws)
  /\ \A n \in 1..(Len(oldToks) - r.we) :
        r.toks[r.ws + r.wi + n] = ShiftAll(oldToks[r.we + n], r.dB, r.dC)
=============================================================================
