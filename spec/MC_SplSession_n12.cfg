SPECIFICATION XSpec
CONSTANTS
  MaxTok = 12
  TypeNames <- TN2
  ProcNames <- PN1
  CallNames <- CN1
  VarNames <- VN2
  IntLits <- LitAll
  RelOps <- RelAll
  AddOps <- AddAll
  MulOps <- MulAll
  Grow = 0
  Start = "Root"
  MaxEdits = 1
  Alphabet <- TokAlphabet
  Chars <- CharSet
CONSTRAINT SizeBound
INVARIANTS EditShape EmitBase
CHECK_DEADLOCK FALSE
