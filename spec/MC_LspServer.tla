---------------------------- MODULE MC_LspServer ----------------------------
EXTENDS LspServer
ConstTrue == TRUE
ConstFalse == FALSE
LifeAlphabet == {"init", "inited", "req", "unk", "open", "unote", "shutdown", "exit"}
DocAlphabet == {"open", "change", "close", "req"}
OneUri == {"file:/a"}
ThreeUris == {"file:/a", "untitled:/a", "file:/b"}
TwoUris == {"file:/a", "file:/b"}
=============================================================================
