SPECIFICATION Spec
CONSTANTS
  MaxTok = 140
  MaxDecls = 4
  MinDecls = 3
  TypeNames <- TN
  ProcNames <- PN
  VarNames <- VN
  Faults <- SemFaults
  OnlyFaulty = TRUE
  Grow = 90
  Shadowing = FALSE
  ForceAfter = 25
  Slim = FALSE
  Balance = TRUE
CONSTRAINT SizeBound
INVARIANTS Balanced UsesBound CheckAgrees EmitInv
CHECK_DEADLOCK FALSE
