SPECIFICATION Spec
CONSTANTS
  MaxTok = 25
  MaxDecls = 2
  MinDecls = 2
  TypeNames <- TN1
  ProcNames <- PN1
  VarNames <- VN1
  Faults <- NoFaults
  OnlyFaulty = FALSE
  Grow = 0
  Shadowing = TRUE
  ForceAfter = 0
  Slim = TRUE
  Balance = FALSE
CONSTRAINT SizeBound
INVARIANTS Balanced UsesBound CheckAgrees EmitInv
CHECK_DEADLOCK FALSE
