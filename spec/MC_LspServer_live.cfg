SPECIFICATION FairSpec
CONSTANTS
  MaxMsgs = 4
  DocCap = 1
  IoCap = 1
  DiagCap = TRUE
  PathOnly = FALSE
  AbruptExit = FALSE
  SpawnOnFull = FALSE
  StartMain = FALSE
  URIs <- OneUri
  Alphabet <- LifeAlphabet
PROPERTIES EveryRequestAnswered EofLeadsToExit
CHECK_DEADLOCK FALSE
