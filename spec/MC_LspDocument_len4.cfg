SPECIFICATION Spec
CONSTANTS
  MaxLen = 4
  MaxIns = 1
  Emit = TRUE
INVARIANTS RoundTripInv MonotoneInv FullTextInv EmitInv
CHECK_DEADLOCK FALSE
