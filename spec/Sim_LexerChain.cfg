SPECIFICATION Spec
CONSTANTS
  MaxLexemes = 12
  MaxEdits = 6
  MaxLen = 200
INVARIANTS EmitLexemes EmitChain
CHECK_DEADLOCK FALSE
