SPECIFICATION GSpec
CONSTANTS
  MaxMsgs = 4
  DocCap = 1
  IoCap = 1
  DiagCap = TRUE
  PathOnly = FALSE
  AbruptExit = FALSE
  SpawnOnFull = FALSE
  StartMain = FALSE
  ReqTail = 0
  URIs <- OneUri
  Alphabet <- LifeAlphabet
INVARIANTS OneResponsePerRequest ExitOnlyAfterExit EmitInv
CHECK_DEADLOCK FALSE
