SPECIFICATION Spec
CONSTANTS
  MaxTok = 70
  MaxDecls = 2
  MinDecls = 2
  TypeNames <- TN1
  ProcNames <- PN1
  VarNames <- VN
  Faults <- ArgFaults
  OnlyFaulty = TRUE
  Grow = 40
  Shadowing = FALSE
  ForceAfter = 20
  Slim = TRUE
  Balance = TRUE
CONSTRAINT SizeBound
INVARIANTS Balanced UsesBound CheckAgrees EmitInv
CHECK_DEADLOCK FALSE
