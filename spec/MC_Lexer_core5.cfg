SPECIFICATION Spec
CONSTANTS
  MaxLen = 5
  Alphabet <- AlphaCore
  EmitCases = TRUE
INVARIANTS TilingInv LongestMatchInv KeywordBoundaryInv EmitInv
CHECK_DEADLOCK FALSE
