---------------------------- MODULE SplGrammar ----------------------------
(* The context-free grammar of SPL as a LEFTMOST-DERIVATION MACHINE.        *)
(*                                                                          *)
(*   stack : sentential-form suffix still to be derived (head = next)       *)
(*   out   : what has been emitted so far: terminals interleaved with       *)
(*           open(NodeKind, attr) / close brackets, i.e. the derivation     *)
(*           tree the grammar MANDATES for the token sequence, in preorder  *)
(*   ntok  : number of terminals emitted                                    *)
(*                                                                          *)
(* One action (Expand) per production choice, one (Shift) per emitted       *)
(* symbol.  A completed behaviour (stack = <<>>) is a syntactically valid   *)
(* program together with its tree.  Written from the SPL language report's  *)
(* EBNF; precedence and associativity are encoded in the productions:       *)
(*   Expr := Add [relop Add]         (one, non-associative comparison)      *)
(*   Add  := Mul {addop Mul}         (left-associative: Add -> Add op Mul)  *)
(*   Mul  := Fac {mulop Fac}         (left-associative)                     *)
(*   Fac  := literal | Var | "-" Fac | "(" Expr ")"                         *)
(*   Var  := id {"[" Expr "]"}       (left-nested accesses)                 *)
(* The dangling else is bound to the nearest `if`: the then-branch of an    *)
(* if-else must be "closed" (Stmt(TRUE)), which makes derivations unique.   *)
(*                                                                          *)
(* NODE EXTENT RULE (what "covers exactly its own tokens with its leading   *)
(* comments" means): a node extends from the first comment of the comment   *)
(* run preceding its first terminal to just after its last terminal.        *)
EXTENDS Naturals, Sequences, FiniteSets, TLC

CONSTANTS MaxTok,        \* size bound: terminals emitted + terminals still owed
          TypeNames, ProcNames, CallNames, VarNames,   \* identifier spellings per role
          IntLits,       \* literal terminals: records [k |-> "Int"|"Hex"|"Char", s |-> spelling, v |-> value as decimal string]
          RelOps, AddOps, MulOps,                      \* operator spellings explored
          Grow,          \* simulation: below this many terminals the list nonterminals do not stop (0 = off)
          Start          \* start symbol ("Root" = whole program, or "Expr" / "Stmt" for sub-grammar runs)

VARIABLES stack, out, ntok
vars == <<stack, out, ntok>>

\* symbols
T(k, s)    == [t |-> "tok", k |-> k, s |-> s, a |-> ""]          \* terminal: token kind (TokenType name), spelling
N(n, f)    == [t |-> "nt", k |-> n, s |-> "", a |-> f]           \* nonterminal with a flag ("" | "closed")
O(n, a)    == [t |-> "open", k |-> n, s |-> "", a |-> a]         \* open bracket: node kind, attribute
C          == [t |-> "close", k |-> "", s |-> "", a |-> ""]

Kw(w) == T(CASE w = "if" -> "If" [] w = "else" -> "Else" [] w = "while" -> "While" [] w = "array" -> "Array"
             [] w = "of" -> "Of" [] w = "proc" -> "Proc" [] w = "ref" -> "Ref" [] w = "type" -> "Type" [] w = "var" -> "Var", w)
Sym(w) == T(CASE w = "(" -> "LParen" [] w = ")" -> "RParen" [] w = "[" -> "LBracket" [] w = "]" -> "RBracket"
              [] w = "{" -> "LCurly" [] w = "}" -> "RCurly" [] w = "=" -> "Eq" [] w = "#" -> "Neq" [] w = "<" -> "Lt"
              [] w = "<=" -> "Le" [] w = ">" -> "Gt" [] w = ">=" -> "Ge" [] w = ":=" -> "Assign" [] w = ":" -> "Colon"
              [] w = "," -> "Comma" [] w = ";" -> "Semic" [] w = "+" -> "Plus" [] w = "-" -> "Minus" [] w = "*" -> "Times"
              [] w = "/" -> "Divide", w)
Id(s) == T("Ident", s)
Ident(s) == <<O("Ident", s), Id(s), C>>                            \* an identifier node

\* productions: nonterminal -> set of right-hand sides
Prods(sym) ==
  LET n == sym.k closed == sym.a = "closed" IN
  CASE n = "Root" -> {<<O("Program", ""), N("Program", ""), C>>}
    [] n = "Program" -> (IF ntok < Grow THEN {} ELSE {<<>>}) \cup {<<N("Decl", ""), N("Program", "")>>}
    \* sub-grammar runs: one expression / one statement list inside a fixed procedure
    [] n = "ExprProg" -> {<<O("Program", ""), O("ProcDec", "main"), Kw("proc")>> \o Ident("main") \o <<Sym("("), Sym(")"), Sym("{"),
                            O("Assign", ""), O("NamedVar", "x"), Id("x"), C, Sym(":="), N("Expr", ""), Sym(";"), C, Sym("}"), C, C>>}
    [] n = "StmtProg" -> {<<O("Program", ""), O("ProcDec", "main"), Kw("proc")>> \o Ident("main") \o <<Sym("("), Sym(")"), Sym("{"),
                            N("Stmts", ""), Sym("}"), C, C>>}
    \* statement STRUCTURES: statement lists of at most two statements, expressions reduced to a literal or a variable,
    \* calls with at most one argument - every nesting of blocks, loops, if / else-if / else chains up to the token bound
    [] n = "StructProg" -> {<<O("Program", ""), O("ProcDec", "main"), Kw("proc")>> \o Ident("main") \o <<Sym("("), Sym(")"), Sym("{"),
                              N("SStmts", "0"), Sym("}"), C, C>>}
    [] n = "SStmts" -> {<<>>} \cup (IF sym.a = "2" THEN {} ELSE {<<N("SStmt", ""), N("SStmts", IF sym.a = "0" THEN "1" ELSE "2")>>})
    [] n = "SStmt" ->
         {<<O("Empty", ""), Sym(";"), C>>,
          <<O("Assign", ""), N("SVar", ""), Sym(":="), N("SExpr", ""), Sym(";"), C>>,
          <<O("Block", ""), Sym("{"), N("SStmts", "0"), Sym("}"), C>>,
          <<O("If", "else"), Kw("if"), Sym("("), N("SExpr", ""), Sym(")"), N("SStmt", "closed"), Kw("else"), N("SStmt", sym.a), C>>,
          <<O("While", ""), Kw("while"), Sym("("), N("SExpr", ""), Sym(")"), N("SStmt", sym.a), C>>}
         \cup {<<O("Call", nm)>> \o Ident(nm) \o <<Sym("("), Sym(")"), Sym(";"), C>> : nm \in CallNames}
         \cup {<<O("Call", nm)>> \o Ident(nm) \o <<Sym("("), N("SExpr", ""), Sym(")"), Sym(";"), C>> : nm \in CallNames}
         \cup (IF closed THEN {} ELSE {<<O("If", ""), Kw("if"), Sym("("), N("SExpr", ""), Sym(")"), N("SStmt", ""), C>>})
    [] n = "SVar" -> {<<O("NamedVar", nm), Id(nm), C>> : nm \in VarNames}
    [] n = "SExpr" -> {<<O("IntLit", l.v), T(l.k, l.s), C>> : l \in IntLits} \cup {<<N("SVar", "")>>}
    [] n = "Decl" ->
         {<<O("TypeDec", nm), Kw("type")>> \o Ident(nm) \o <<Sym("="), N("TypeExpr", ""), Sym(";"), C>> : nm \in TypeNames}
         \cup {<<O("ProcDec", nm), Kw("proc")>> \o Ident(nm) \o <<Sym("("), N("Params", ""), Sym(")"), Sym("{"),
                 N("Vars", ""), N("Stmts", ""), Sym("}"), C>> : nm \in ProcNames}
    [] n = "TypeExpr" ->
         {<<O("NamedType", nm), Id(nm), C>> : nm \in TypeNames \cup {"int"}}
         \cup {<<O("ArrayType", ""), Kw("array"), Sym("["), O("IntLit", l.v), T(l.k, l.s), C, Sym("]"), Kw("of"), N("TypeExpr", ""), C>>
                 : l \in {x \in IntLits : x.k = "Int"}}
    [] n = "Params" -> {<<>>, <<N("Param", ""), N("ParamsTail", "")>>}
    [] n = "ParamsTail" -> {<<>>, <<Sym(","), N("Param", ""), N("ParamsTail", "")>>}
    [] n = "Param" ->
         {<<O("Param", "")>> \o Ident(nm) \o <<Sym(":"), N("TypeExpr", ""), C>> : nm \in VarNames}
         \cup {<<O("Param", "ref"), Kw("ref")>> \o Ident(nm) \o <<Sym(":"), N("TypeExpr", ""), C>> : nm \in VarNames}
    [] n = "Vars" -> {<<>>} \cup {<<O("VarDec", nm), Kw("var")>> \o Ident(nm) \o <<Sym(":"), N("TypeExpr", ""), Sym(";"), C, N("Vars", "")>> : nm \in VarNames}
    [] n = "Stmts" -> (IF ntok < Grow /\ Len(stack) < 40 THEN {} ELSE {<<>>}) \cup {<<N("Stmt", ""), N("Stmts", "")>>}
    [] n = "Stmt" ->
         {<<O("Empty", ""), Sym(";"), C>>,
          <<O("Assign", ""), N("Var", ""), Sym(":="), N("Expr", ""), Sym(";"), C>>,
          <<O("Block", ""), Sym("{"), N("Stmts", ""), Sym("}"), C>>,
          <<O("If", "else"), Kw("if"), Sym("("), N("Expr", ""), Sym(")"), N("Stmt", "closed"), Kw("else"), N("Stmt", sym.a), C>>,
          <<O("While", ""), Kw("while"), Sym("("), N("Expr", ""), Sym(")"), N("Stmt", sym.a), C>>}
         \cup {<<O("Call", nm)>> \o Ident(nm) \o <<Sym("("), N("Args", ""), Sym(")"), Sym(";"), C>> : nm \in CallNames}
         \cup (IF closed THEN {} ELSE {<<O("If", ""), Kw("if"), Sym("("), N("Expr", ""), Sym(")"), N("Stmt", ""), C>>})
    [] n = "Args" -> {<<>>, <<N("Expr", ""), N("ArgsTail", "")>>}
    [] n = "ArgsTail" -> {<<>>, <<Sym(","), N("Expr", ""), N("ArgsTail", "")>>}
    [] n = "Var" ->
         {<<O("NamedVar", nm), Id(nm), C>> : nm \in VarNames}
         \cup {<<O("ArrayAccess", ""), N("Var", ""), Sym("["), N("Expr", ""), Sym("]"), C>>}
    [] n = "Expr" -> {<<N("Add", "")>>} \cup {<<O("Binary", o), N("Add", ""), Sym(o), N("Add", ""), C>> : o \in RelOps}
    [] n = "Add" -> {<<N("Mul", "")>>} \cup {<<O("Binary", o), N("Add", ""), Sym(o), N("Mul", ""), C>> : o \in AddOps}
    [] n = "Mul" -> {<<N("Fac", "")>>} \cup {<<O("Binary", o), N("Mul", ""), Sym(o), N("Fac", ""), C>> : o \in MulOps}
    [] n = "Fac" ->
         {<<O("IntLit", l.v), T(l.k, l.s), C>> : l \in IntLits}
         \cup {<<N("Var", "")>>,
               <<O("Unary", "-"), Sym("-"), N("Fac", ""), C>>,
               <<O("Bracketed", ""), Sym("("), N("Expr", ""), Sym(")"), C>>}

\* minimum number of terminals a symbol still owes
MinTok(sym) ==
  IF sym.t = "tok" THEN 1
  ELSE IF sym.t # "nt" THEN 0
  ELSE CASE sym.k = "Decl" -> 5 [] sym.k \in {"TypeExpr", "Stmt", "Var", "Expr", "Add", "Mul", "Fac", "SStmt", "SVar", "SExpr"} -> 1
         [] sym.k = "Param" -> 3 [] OTHER -> 0
RECURSIVE Owed(_)
Owed(s) == IF s = <<>> THEN 0 ELSE MinTok(Head(s)) + Owed(Tail(s))

Init == stack = <<N(Start, "")>> /\ out = <<>> /\ ntok = 0

Expand == /\ stack # <<>> /\ Head(stack).t = "nt"
          /\ \E rhs \in Prods(Head(stack)) : stack' = rhs \o Tail(stack)
          /\ UNCHANGED <<out, ntok>>
Shift == /\ stack # <<>> /\ Head(stack).t # "nt"
         /\ out' = Append(out, Head(stack)) /\ stack' = Tail(stack)
         /\ ntok' = ntok + (IF Head(stack).t = "tok" THEN 1 ELSE 0)
Next == Expand \/ Shift
Spec == Init /\ [][Next]_vars

Done == stack = <<>>
SizeBound == ntok + Owed(stack) <= MaxTok      \* CONSTRAINT

-----------------------------------------------------------------------------
\* well-formedness of what the machine emits (checked on every completed behaviour)
RECURSIVE Depth(_, _)
Depth(s, d) == IF s = <<>> THEN d
               ELSE IF Head(s).t = "open" THEN Depth(Tail(s), d + 1)
               ELSE IF Head(s).t = "close" THEN (IF d = 0 THEN 1000 ELSE Depth(Tail(s), d - 1))
               ELSE Depth(Tail(s), d)
Balanced == Done => Depth(out, 0) = 0
Tokens(s) == SelectSeq(s, LAMBDA x : x.t = "tok")
=============================================================================
