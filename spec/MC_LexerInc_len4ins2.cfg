SPECIFICATION Spec
CONSTANTS
  MaxLen = 4
  MaxIns = 2
  Alphabet <- AlphaLA9
  Emit = TRUE
INVARIANTS TilingInv EmitInv
CHECK_DEADLOCK FALSE
