---------------------------- MODULE TraceServer ----------------------------
(* Trace validation of the REAL lsp4spl binary against LspServer.           *)
(*                                                                          *)
(* Input (env TRACE): NDJSON, one normalised event per line, written by the *)
(* hooked binary (cargo feature `verif`: tasks R reader, B broker,          *)
(* W responder) and by the driver (task D: what it sent, what it received). *)
(* Events are ordered PER TASK only; the interleaving of the task logs is   *)
(* searched by TLC.  Each trace action is                                   *)
(*     "the next event of task T is E"  /\  bind logged fields  /\          *)
(*     the corresponding action of LspServer                                *)
(* so a trace is accepted iff it is a behaviour of LspServer, including its *)
(* ghost comparison of every output with the sequential semantics.          *)
(*                                                                          *)
(* Document contents are TEXTS here (NoDoc/Apply are overridden): `open`    *)
(* carries the text, `change` carries the text the client holds afterwards  *)
(* (computed by the driver's independent LSP text model, LspDocument.tla),  *)
(* so `B.change.text = docs'[k]` says: the server's copy equals the         *)
(* client's after every notification (C08), and `inc` = "true" says the     *)
(* incremental analysis equalled the fresh one (C01).                       *)
(*                                                                          *)
(* Sessions are concatenated; a `reset` event in every task log separates   *)
(* them (JVM start-up is paid once).                                        *)
EXTENDS LspServer, Json, IOUtils, Integers

\* The logs are computed once (TInit) and kept in TLC registers: a definition such as
\* SelectSeq(All, ...) would be re-evaluated at every use.
All == ndJsonDeserialize(IOEnv.TRACE)
LogOf(t) == SelectSeq(All, LAMBDA e : e.task = t)
RL == TLCGet(2)
BL == TLCGet(3)
WL == TLCGet(4)
DS == TLCGet(5)   \* driver: sent messages
DR == TLCGet(6)   \* driver: received frames
TraceURIs == {All[i].uri : i \in DOMAIN All} \ {""}   \* substituted for URIs: evaluated once at start-up
LoadLogs ==
  LET all == All IN
  /\ TLCSet(2, SelectSeq(all, LAMBDA e : e.task = "R"))
  /\ TLCSet(3, SelectSeq(all, LAMBDA e : e.task = "B"))
  /\ TLCSet(4, SelectSeq(all, LAMBDA e : e.task = "W"))
  /\ TLCSet(5, SelectSeq(all, LAMBDA e : e.task = "D" /\ e.ev \in {"send", "reset"}))
  /\ TLCSet(6, SelectSeq(all, LAMBDA e : e.task = "D" /\ e.ev \in {"recv", "reset"}))

VARIABLES r, b, w, ds     \* cursors into RL, BL, WL (= DR), DS
tvars == <<vars, r, b, w, ds>>

TraceNoDoc == "<no document>"   \* a value no generated document text equals (the empty text is a text)
TraceApply(content, m) == m.v          \* the message carries the resulting text
DocMethods == {"textDocument/declaration", "textDocument/definition", "textDocument/implementation",
               "textDocument/typeDefinition", "textDocument/references", "textDocument/hover", "textDocument/rename",
               "textDocument/prepareRename", "textDocument/completion", "textDocument/foldingRange",
               "textDocument/semanticTokens/full", "textDocument/signatureHelp", "textDocument/formatting",
               "$/verif/text"}

\* abstract message of a driver `send` event
TypeOf(e) ==
  CASE e.method = "initialize" -> "init"   [] e.method = "initialized" -> "inited"
    [] e.method = "shutdown" -> "shutdown" [] e.method = "exit" -> "exit"
    [] e.method = "textDocument/didOpen" -> "open" [] e.method = "textDocument/didChange" -> "change"
    [] e.method = "textDocument/didClose" -> "close"
    [] e.kind = "req" /\ e.method \in DocMethods -> "req"
    [] e.kind = "req" -> "unk"
    [] OTHER -> "unote"
MsgOf(e) == [t |-> TypeOf(e), u |-> IF TypeOf(e) \in {"req", "open", "change", "close"} THEN e.uri ELSE "", v |-> e.text]
ResOf(e) == IF e.outcome = "result" THEN "ok"
            ELSE IF e.code = -32002 THEN "SNI" ELSE IF e.code = -32600 THEN "IR" ELSE IF e.code = -32601 THEN "MNF" ELSE "other"

IsR(ev) == r <= Len(RL) /\ RL[r].ev = ev
IsB(ev) == b <= Len(BL) /\ BL[b].ev = ev
IsW(ev) == w <= Len(WL) /\ WL[w].ev = ev

\* Partial-order reduction: the responder first.  It is the only consumer of iotx; its step commutes
\* with every later step of the other tasks and only frees channel capacity, so if a trace has an
\* explaining interleaving it has one in which W runs whenever it can.  (If W's next event does not
\* match the head of iotx now, it never will.)  Reader and broker both PRODUCE into iotx, so their
\* relative order is observable and must be searched.
WReady == w <= Len(WL) /\ WL[w].ev = "sent" /\ ioq # <<>>

TInit == LoadLogs /\ TLCSet(1, 0) /\ Init /\ r = 1 /\ b = 1 /\ w = 1 /\ ds = 1

\* --- client: the ghost learns of message ds when the reader is about to decode it
TClientSend ==
  /\ ~WReady
  /\ ds <= Len(DS) /\ DS[ds].ev = "send" /\ pipe = <<>> /\ ~closed
  /\ IsR("recv") /\ RL[r].method = DS[ds].method /\ RL[r].id = DS[ds].id /\ RL[r].kind = DS[ds].kind
  /\ LET m == MsgOf(DS[ds]) id == DS[ds].id
         rr == ExpStep(g, m, id) IN
     /\ g' = rr.g /\ nsent' = nsent + 1
     /\ pipe' = Append(pipe, [m |-> m, id |-> id])
     /\ pend' = pend \o SelectSeq(rr.out, LAMBDA o : o.k = "resp")
     /\ pendD' = AddDiags(pendD, rr.out)
  /\ ds' = ds + 1
  /\ UNCHANGED <<closed, rphase, rwait, docq, ioq, docs, lastD, limbo, status, ok, r, b, w>>

\* --- reader
\* which R event completes the model's ReaderStep for the message at the head of the pipe?
\*   document notification in main : R.note (logged after doctx.send returned)
\*   request answered without broker: R.resp (logged after iotx.send returned)
\*   anything else                  : R.recv itself
Head1 == Head(pipe).m
NeedsNote == rphase = "main" /\ Head1.t \in {"open", "change", "close"}
DirectResp == Head1.t \in Requests /\ ~(rphase = "main" /\ Head1.t = "req")

\* R.recv: the frame was decoded.  Either it IS the reader step, or the step completes at a later R event.
TRecvStep ==
  /\ ~WReady
  /\ IsR("recv") /\ pipe # <<>> /\ ~NeedsNote /\ ~DirectResp
  /\ ReaderStep
  /\ r' = r + 1 /\ UNCHANGED <<b, w, ds>>
TRecvOnly ==
  /\ ~WReady
  /\ IsR("recv") /\ pipe # <<>> /\ (NeedsNote \/ DirectResp)
  /\ r + 1 <= Len(RL) /\ RL[r + 1].ev = (IF NeedsNote THEN "note" ELSE "resp")
  /\ ReaderStep
  /\ r' = r + 2 /\ UNCHANGED <<b, w, ds>>
  \* the logged response is the one the model enqueued
  /\ DirectResp => LET o == ioq'[Len(ioq')] IN
                     /\ RL[r + 1].id = o.id
                     /\ \/ ResOf(RL[r + 1]) = o.res
                        \/ o.res = "SNI|IR" /\ ResOf(RL[r + 1]) \in {"SNI", "IR"}

\* R.resp after the broker's reply
TRespond ==
  /\ ~WReady
  /\ IsR("resp") /\ rwait.w = "got" /\ RL[r].id = rwait.id /\ RL[r].outcome = "result"
  /\ ReaderRespond
  /\ r' = r + 1 /\ UNCHANGED <<b, w, ds>>

\* --- broker.  B.pub is logged inside the open/change step, before the document is stored.
BrokerPubPending == b <= Len(BL) /\ BL[b].ev = "pub"
TBroker ==
  /\ ~WReady
  /\ docq # <<>> /\ b <= Len(BL)
  /\ LET e == Head(docq)
         hasPub == DiagCap /\ e.t \in {"open", "change"} /\ (e.t = "change" => docs[Key(e.u)] # NoDoc)
         ev == IF hasPub THEN BL[b + 1] ELSE BL[b]
     IN
     /\ hasPub => (BL[b].ev = "pub" /\ BL[b].uri = e.u /\ b + 1 <= Len(BL))
     /\ ev.ev = (IF e.t = "get" THEN "get" ELSE e.t) /\ ev.uri = e.u
     /\ BrokerStep
     /\ b' = b + (IF hasPub THEN 2 ELSE 1)
     \* bind the logged state: the broker's text after the step is the logged one
     /\ e.t = "open" => (ev.text = docs'[Key(e.u)] /\ ev.text = e.v)
     /\ e.t = "change" => IF docs[Key(e.u)] = NoDoc THEN ev.found = FALSE
                          ELSE /\ ev.found /\ ev.text = docs'[Key(e.u)]       \* = the client's text (C08)
                               /\ ev.inc = "true"                              \* incremental = fresh (C01)
     /\ e.t = "get" => ev.found = (docs[Key(e.u)] # NoDoc)
  /\ UNCHANGED <<r, w, ds>>

\* --- responder: W.sent[j] and the driver's j-th received frame describe the same frame
TWrite ==
  /\ IsW("sent") /\ ioq # <<>> /\ w <= Len(DR) /\ DR[w].ev = "recv"
  /\ LET o == Head(ioq) IN
     /\ WL[w].kind = DR[w].kind /\ WL[w].id = DR[w].id
     /\ IF o.k = "resp"
        THEN /\ WL[w].kind = "resp" /\ WL[w].id = o.id
             /\ DR[w].outcome = (IF o.res = "ok" THEN "result" ELSE "error")
             \* a text request's answer on the wire is the broker's text at that point (read-your-writes)
             /\ (DR[w].method = "$/verif/text" /\ o.res = "ok") => DR[w].text = o.v   \* (null is logged as NoDoc)
        ELSE /\ WL[w].kind = "note" /\ WL[w].method = "textDocument/publishDiagnostics" /\ WL[w].uri = o.u
  /\ ResponderWrite
  /\ w' = w + 1 /\ UNCHANGED <<r, b, ds>>

\* --- end of a session: every log is at its reset marker, everything was delivered
TReset ==
  /\ IsR("reset") /\ IsB("reset") /\ IsW("reset") /\ ds <= Len(DS) /\ DS[ds].ev = "reset" /\ DR[w].ev = "reset"
  /\ pipe = <<>> /\ docq = <<>> /\ ioq = <<>> /\ rwait.w = "idle"
  /\ ok /\ pend = <<>> /\ \A u \in URIs : pendD[u] = <<>>
  /\ (DiagCap => \A u \in URIs : (lastD[u] # NoDoc /\ g.docs[u] # NoDoc) => lastD[u] = g.docs[u])
  \* start over from the initial state of LspServer
  /\ g' = G0 /\ nsent' = 0 /\ closed' = FALSE /\ pipe' = <<>>
  /\ rphase' = "uninit" /\ rwait' = Idle /\ docq' = <<>> /\ ioq' = <<>>
  /\ docs' = [k \in Keys |-> NoDoc]
  /\ pend' = <<>> /\ pendD' = [u \in URIs |-> <<>>] /\ lastD' = [u \in URIs |-> NoDoc]
  /\ limbo' = {} /\ status' = None /\ ok' = TRUE
  /\ r' = r + 1 /\ b' = b + 1 /\ w' = w + 1 /\ ds' = ds + 1

TNext == TClientSend \/ TRecvStep \/ TRecvOnly \/ TRespond \/ TBroker \/ TWrite \/ TReset
TSpec == TInit /\ [][TNext]_tvars

Progress == r + b + w + ds
Total == Len(RL) + Len(BL) + Len(WL) + Len(DS) + 4
Furthest == TLCSet(1, IF TLCGet(1) > Progress THEN TLCGet(1) ELSE Progress)
Accepted ==
  IF TLCGet(1) = Total THEN TRUE
  ELSE Print(<<"REJECTED: furthest", TLCGet(1), "of", Total>>, FALSE)
=============================================================================
