SPECIFICATION Spec
CONSTANTS
  MaxTok = 26
  MaxDecls = 2
  MinDecls = 2
  TypeNames <- TN
  ProcNames <- PN0
  VarNames <- VN1
  Faults <- NoFaults
  OnlyFaulty = FALSE
  Grow = 0
  Shadowing = FALSE
  ForceAfter = 0
  Slim = TRUE
  Balance = FALSE
CONSTRAINT SizeBound
INVARIANTS Balanced UsesBound CheckAgrees EmitInv
CHECK_DEADLOCK FALSE
