SPECIFICATION Spec
CONSTANTS
  MaxTok = 17
  TypeNames <- TN1
  ProcNames <- PN1
  CallNames <- CN1
  VarNames <- VN1
  IntLits <- Lit1
  RelOps <- Rel1
  AddOps <- Add1
  MulOps <- Mul1
  Grow = 0
  Start = "StmtProg"
CONSTRAINT SizeBound
INVARIANTS Balanced EmitInv
CHECK_DEADLOCK FALSE
