SPECIFICATION GSpec
CONSTANTS
  MaxMsgs = 300
  DocCap = 1
  IoCap = 1
  DiagCap = TRUE
  PathOnly = FALSE
  AbruptExit = FALSE
  StartMain = TRUE
  URIs <- ThreeUris
  Alphabet <- LoadAlphabet
INVARIANTS EmitFinal
CHECK_DEADLOCK FALSE
