SPECIFICATION Spec
CONSTANTS
  MaxLen = 4
  MaxIns = 1
  Alphabet <- AlphaLA
  Emit = TRUE
INVARIANTS TilingInv EmitInv
CHECK_DEADLOCK FALSE
