---------------------------- MODULE MC_LspDocument ----------------------------
(* Exhaustive part: all texts up to MaxLen over {a, U2, U3, U4, CR, LF};    *)
(* transitions = all ranged changes over the position grid (valid and       *)
(* overshooting positions) with replacement strings up to MaxIns.  Every    *)
(* text is printed with its position table (grid -> offset), from which the *)
(* harness derives the predicted result of every change of the graph.       *)
EXTENDS LspDocument, Json, SequencesExt
CONSTANTS MaxLen, MaxIns, Emit
VARIABLE text
DocAlpha == {"a", "U2", "U3", "U4", "\r", "\n"}
InsAlpha == {"a", "U4", "\r", "\n"}

RECURSIVE Strings(_)
Strings(n) == IF n = 0 THEN {<<>>} ELSE Strings(n - 1) \cup {Append(s, c) : s \in Strings(n - 1), c \in InsAlpha}

\* grid: lines 0..NumLines (one beyond), columns 0..max units + 2
Grid(s) == {<<l, c>> \in (0..NumLines(s)) \X (0..(Units(s) + 2)) : OnBoundary(s, l, c)}
Table(s) == {[l |-> p[1], c |-> p[2], o |-> Offset(s, p[1], p[2])] : p \in Grid(s)}

Changes(s) == {ch \in [full : {FALSE}, sl : 0..NumLines(s), sc : 0..(Units(s) + 2), el : 0..NumLines(s), ec : 0..(Units(s) + 2), ins : Strings(MaxIns)] :
                 /\ OnBoundary(s, ch.sl, ch.sc) /\ OnBoundary(s, ch.el, ch.ec)
                 /\ Offset(s, ch.sl, ch.sc) <= Offset(s, ch.el, ch.ec)
                 /\ (ch.sl < ch.el \/ (ch.sl = ch.el /\ ch.sc <= ch.ec))
                 /\ Len(ApplyChange(s, ch)) <= MaxLen}

Init == /\ text = <<>>
        /\ Emit => PrintT(<<"META", ToJson([maxlen |-> MaxLen, maxins |-> MaxIns, insalpha |-> SetToSeq(InsAlpha)])>>)
Grow == Len(text) < MaxLen /\ \E c \in DocAlpha : text' = Append(text, c)
Change == \E ch \in Changes(text) : text' = ApplyChange(text, ch)
Next == Grow \/ Change
Spec == Init /\ [][Next]_text

EmitInv == Emit => PrintT(<<"DOC", ToJson([text |-> text, nlines |-> NumLines(text), units |-> Units(text), table |-> SetToSeq(Table(text))])>>)
RoundTripInv == PosRoundTrip(text)
MonotoneInv == OffsetMonotone(text)
FullTextInv == FullTextChangeReplaces(text)
=============================================================================
