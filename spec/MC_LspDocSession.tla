---------------------------- MODULE MC_LspDocSession ----------------------------
(* Longer synchronisation sessions (simulation): an initial text and a       *)
(* sequence of didChange notifications, each with 1-3 content changes        *)
(* (ranged with valid or overshooting positions, or full-text), every change *)
(* relative to the result of its predecessor.  The specification records the *)
(* text the client holds after every notification.                           *)
EXTENDS LspDocument, Json, SequencesExt
CONSTANTS MaxNotes, MaxLen
VARIABLES text, init, notes
vars == <<text, init, notes>>

Pieces == {<<"a">>, <<"a","a","a">>, <<"U2">>, <<"U3">>, <<"U4">>, <<"U4","a","U4">>, <<"\n">>, <<"\r","\n">>, <<"\r">>,
           <<"a","\n","a">>, <<"\n","\n">>, <<"a","\r","\n","U4","a">>, <<"U2","\r","a">>}
InsPieces == Pieces \cup {<<>>}

\* one random change on s (bound through singleton sets: TLC re-evaluates LET definitions)
Pos(s) == (0..(NumLines(s) + 1)) \X (0..(Units(s) + 2))
RandChange(s) ==
  {[full |-> f, sl |-> p[1], sc |-> p[2], el |-> q[1], ec |-> q[2], ins |-> ins] :
     f \in {RandomElement({FALSE, FALSE, FALSE, FALSE, TRUE})},
     p \in {RandomElement(Pos(s))}, q \in {RandomElement(Pos(s))}, ins \in {RandomElement(InsPieces)}}
Valid(s, ch) == ch.full \/ ( /\ OnBoundary(s, ch.sl, ch.sc) /\ OnBoundary(s, ch.el, ch.ec)
                             /\ (ch.sl < ch.el \/ (ch.sl = ch.el /\ ch.sc <= ch.ec)) )

Init == /\ \E a \in {RandomElement(Pieces)}, b \in {RandomElement(Pieces)}, c \in {RandomElement(Pieces)} :
             text = a \o b \o c /\ init = a \o b \o c
        /\ notes = <<>>

Note1 == \E c1 \in RandChange(text) :
           /\ Valid(text, c1)
           /\ LET t1 == ApplyChange(text, c1) IN
              /\ Len(t1) <= MaxLen /\ text' = t1
              /\ notes' = Append(notes, [changes |-> <<c1>>, expect |-> t1])
Note2 == \E c1 \in RandChange(text) :
           /\ Valid(text, c1)
           /\ \E c2 \in RandChange(ApplyChange(text, c1)) :
                /\ Valid(ApplyChange(text, c1), c2)
                /\ LET t2 == ApplyBatch(text, <<c1, c2>>) IN
                   /\ Len(t2) <= MaxLen /\ Len(ApplyChange(text, c1)) <= MaxLen /\ text' = t2
                   /\ notes' = Append(notes, [changes |-> <<c1, c2>>, expect |-> t2])
Next == /\ Len(notes) < MaxNotes /\ (Note1 \/ Note2) /\ UNCHANGED init
Spec == Init /\ [][Next]_vars

Emit == Len(notes) = MaxNotes => PrintT(<<"SESSION", ToJson([init |-> init, notes |-> notes])>>)
=============================================================================
