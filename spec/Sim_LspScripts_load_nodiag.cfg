SPECIFICATION GSpec
CONSTANTS
  MaxMsgs = 300
  DocCap = 1
  IoCap = 1
  DiagCap = FALSE
  PathOnly = FALSE
  AbruptExit = FALSE
  SpawnOnFull = FALSE
  StartMain = TRUE
  ReqTail = 0
  URIs <- ThreeUris
  Alphabet <- LoadAlphabet
INVARIANTS EmitFinal
CHECK_DEADLOCK FALSE
