---------------------------- MODULE LspProtocol ----------------------------
(* Message alphabet and SEQUENTIAL SEMANTICS of an lsp4spl session (what    *)
(* properties C18/C20 promise to the client): ExpStep.  No variables here;  *)
(* LspServer.tla (implementation model) and MC_LspScripts.tla (script       *)
(* generator) both build on it.                                             *)
(*                                                                          *)
(* Context: the lsp4spl server process: a client, the stdin pipe, the READER task    *)
(* (three sequential phase loops of server.rs), the bounded channels doctx  *)
(* and iotx, the document BROKER task (document.rs), the RESPONDER task     *)
(* (io.rs) and stdout.  One action per critical section of the code.        *)
(*                                                                          *)
(* Ghost part = the SEQUENTIAL SEMANTICS of the client's message sequence   *)
(* (what properties C18/C20 promise): ExpStep.  The implementation part     *)
(* must refine it for every interleaving and every channel capacity >= 1.   *)
(*                                                                          *)
(* Deliberate deviations of the code are model parameters, so that TLC can  *)
(* refute them:                                                             *)
(*   PathOnly      documents keyed by uri.path() instead of the full URI    *)
(*   SpawnOnFull   `didChange` does not block on a full doctx but spawns a  *)
(*                 task that sends later: notifications overtake each other *)
(*   AbruptExit    `exit` outside the shutdown phase kills the process at   *)
(*                 once (responses still queued in iotx are lost)           *)
EXTENDS Naturals, Sequences, FiniteSets, TLC

CONSTANTS MaxMsgs,      \* bound on the number of client messages
          DocCap, IoCap,\* channel capacities (32 in the code; any >= 1 must work)
          DiagCap,      \* client announced publishDiagnostics support
          PathOnly, AbruptExit,
          SpawnOnFull,  \* deviation: a change notification that finds doctx full is handed to a spawned task (sent later, in any order)
          StartMain,    \* explore from an already initialised session (saves message budget)
          URIs,         \* document URIs the client uses
          Alphabet      \* message types the client uses (subset of MsgTypes)

None == 0       \* "no exit status yet"
NoDoc == 0      \* "document not open" (trace validation overrides NoDoc/Apply: contents are texts there)
\* "sunk" = a request for an unknown method whose id is a JSON string (legal JSON-RPC)
MsgTypes == {"init", "inited", "req", "unk", "sunk", "open", "change", "close", "unote", "shutdown", "exit"}
Requests == {"init", "req", "unk", "sunk", "shutdown"}

\* Two URIs that differ only in scheme share their path.
PathOf(u) == IF u = "untitled:/a" THEN "/a" ELSE IF u = "file:/a" THEN "/a" ELSE IF u = "file:/b" THEN "/b" ELSE u
Key(u) == IF PathOnly THEN PathOf(u) ELSE u
Keys == {Key(u) : u \in URIs}

\* messages: one record shape.  v: content (open) or appended digit (change)
Msg(t, u, v) == [t |-> t, u |-> u, v |-> v]
Messages ==
  {Msg(t, "", 0) : t \in Alphabet \cap {"init", "inited", "unk", "sunk", "unote", "shutdown", "exit"}}
  \cup {Msg("req", u, 0) : u \in (IF "req" \in Alphabet THEN URIs ELSE {})}
  \cup {Msg("open", u, v) : u \in (IF "open" \in Alphabet THEN URIs ELSE {}), v \in {1, 2}}
  \cup {Msg("change", u, 10) : u \in (IF "change" \in Alphabet THEN URIs ELSE {})}
  \cup {Msg("close", u, 0) : u \in (IF "close" \in Alphabet THEN URIs ELSE {})}

\* outputs: one record shape.  k = "resp" | "diag"
Resp(id, res, v) == [k |-> "resp", id |-> id, res |-> res, u |-> "", v |-> v]   \* res: "ok" | "SNI" | "IR" | "MNF" | "SNI|IR"
Diag(u, v)       == [k |-> "diag", id |-> 0, res |-> "", u |-> u, v |-> v]

-----------------------------------------------------------------------------
(* Sequential semantics.  g = [phase, docs, exit]; returns the new ghost   *)
(* state and the outputs the message entitles the client to.               *)

G0 == [phase |-> "uninit", docs |-> [u \in URIs |-> NoDoc], exit |-> None]   \* exit: None | 10 (status 0) | 11 (status 1)

\* content of a document: open sets it, a change adds its increment (abstract "version" arithmetic)
Apply(content, m) == IF m.t = "open" THEN m.v ELSE content + m.v

ExpStep(g, m, id) ==
  LET same == [g |-> g, out |-> <<>>]
      err(code) == [g |-> g, out |-> <<Resp(id, code, NoDoc)>>]
  IN
  CASE m.t = "exit" -> [g |-> [g EXCEPT !.phase = "exited", !.exit = IF g.phase = "shutdown" THEN 10 ELSE 11], out |-> <<>>]
    [] m.t # "exit" /\ g.phase = "uninit" ->
         IF m.t = "init" THEN [g |-> [g EXCEPT !.phase = "initing"], out |-> <<Resp(id, "ok", NoDoc)>>]
         ELSE IF m.t \in Requests THEN err("SNI") ELSE same
    [] m.t # "exit" /\ g.phase = "initing" ->
         IF m.t = "inited" THEN [g |-> [g EXCEPT !.phase = "main"], out |-> <<>>]
         ELSE IF m.t = "init" THEN err("SNI|IR")       \* the property names both rejections here
         ELSE IF m.t \in Requests THEN err("SNI") ELSE same
    [] m.t # "exit" /\ g.phase = "main" ->
         CASE m.t = "init" -> err("IR")
           [] m.t = "shutdown" -> [g |-> [g EXCEPT !.phase = "shutdown"], out |-> <<Resp(id, "ok", NoDoc)>>]
           [] m.t \in {"unk", "sunk"} -> err("MNF")
           [] m.t = "req" -> [g |-> g, out |-> <<Resp(id, "ok", g.docs[m.u])>>]      \* read-your-writes
           [] m.t = "open" -> [g |-> [g EXCEPT !.docs[m.u] = m.v],
                               out |-> IF DiagCap THEN <<Diag(m.u, m.v)>> ELSE <<>>]
           [] m.t = "change" -> IF g.docs[m.u] = NoDoc THEN same
                                ELSE [g |-> [g EXCEPT !.docs[m.u] = Apply(@, m)],
                                      out |-> IF DiagCap THEN <<Diag(m.u, Apply(g.docs[m.u], m))>> ELSE <<>>]
           [] m.t = "close" -> [g |-> [g EXCEPT !.docs[m.u] = NoDoc], out |-> <<>>]
           [] OTHER -> same
    [] m.t # "exit" /\ g.phase = "shutdown" ->
         IF m.t \in Requests THEN err("IR") ELSE same
    [] OTHER -> same      \* exited: nothing is sent any more

=============================================================================
