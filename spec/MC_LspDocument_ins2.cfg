SPECIFICATION Spec
CONSTANTS
  MaxLen = 3
  MaxIns = 2
  Emit = TRUE
INVARIANTS RoundTripInv MonotoneInv FullTextInv EmitInv
CHECK_DEADLOCK FALSE
