SPECIFICATION SSpec
CONSTANTS
  MaxTok = 120
  TypeNames <- TN2
  ProcNames <- PN1
  CallNames <- CN1
  VarNames <- VN2
  IntLits <- LitAll
  RelOps <- RelAll
  AddOps <- AddAll
  MulOps <- MulAll
  Grow = 40
  Start = "Root"
  MaxEdits = 4
  Alphabet <- TokAlphabet
  Chars <- CharSet
CONSTRAINT SizeBound
INVARIANTS EmitHistory
CHECK_DEADLOCK FALSE
