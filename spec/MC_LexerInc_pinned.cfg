\* Reproduces the pinned implementation's design; EXPECTED TO FAIL (used by selfcheck).
SPECIFICATION Spec
CONSTANTS
  MaxLen = 3
  MaxIns = 1
  Alphabet <- AlphaLA
  Emit = FALSE
  LA <- LAPinned
  ShiftErrors <- ConstFalse
INVARIANTS TilingInv
CHECK_DEADLOCK FALSE
