---------------------------- MODULE MC_SplSession ----------------------------
EXTENDS SplSession, Json
TN2 == {"t", "vec"}
PN1 == {"main", "p"}
CN1 == {"p"}
VN2 == {"x", "i"}
LitAll == {[k |-> "Int", s |-> "1", v |-> "1"], [k |-> "Int", s |-> "007", v |-> "7"], [k |-> "Hex", s |-> "0x1F", v |-> "31"],
           [k |-> "Char", s |-> "'a'", v |-> "97"]}
RelAll == {"=", "#", "<", "<=", ">", ">="}
AddAll == {"+", "-"}
MulAll == {"*", "/"}
TokAlphabet == {"(", ")", "[", "]", "{", "}", "=", "#", "<", "<=", ">", ">=", ":=", ":", ",", ";", "+", "-", "*", "/", "if", "else", "while",
                "array", "of", "ref", "var", "proc", "type", "x", "int", "zz", "1", "0x1F", "'a'", "$"}
CharSet == {"'", "/", "\n", " ", "U2", "x", "0"}
Compact(x) == IF x.t = "tok" THEN "t " \o x.k \o " " \o x.s
              ELSE IF x.t = "open" THEN "o " \o x.k \o " " \o x.a ELSE "c"
\* exhaustive run: print every base program once (the harness enumerates the same edits)
EmitBase == (base # <<>> /\ hist = <<>>) => PrintT(<<"PROG", ToJson([out |-> [i \in DOMAIN out |-> Compact(out[i])], ntok |-> ntok])>>)
EmitHistory == HistoryDone => PrintT(<<"HISTORY", ToJson([base |-> base, edits |-> hist])>>)
=============================================================================
