SPECIFICATION Spec
CONSTANTS
  MaxMsgs = 4
  DocCap = 1
  IoCap = 1
  DiagCap = TRUE
  PathOnly = FALSE
  AbruptExit = FALSE
  SpawnOnFull = TRUE
  StartMain = TRUE
  URIs <- ThreeUris
  Alphabet <- DocAlphabet
INVARIANTS TypeOK OutputIsSequentialSemantics ExitStatus CompleteAtGracefulEnd LastDiagnosticsAreFinal NoDiagnosticsWithoutCapability StrictIsolation
CHECK_DEADLOCK FALSE
