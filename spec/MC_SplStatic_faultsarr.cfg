SPECIFICATION Spec
CONSTANTS
  MaxTok = 22
  MaxDecls = 1
  MinDecls = 1
  TypeNames <- TN0
  ProcNames <- PN0
  VarNames <- VN1
  Faults <- SemFaults
  OnlyFaulty = TRUE
  Grow = 0
  Shadowing = FALSE
  ForceAfter = 0
  Slim = TRUE
  Balance = FALSE
CONSTRAINT SizeBound
INVARIANTS Balanced UsesBound CheckAgrees EmitInv
CHECK_DEADLOCK FALSE
