---------------------------- MODULE MC_LspFraming ----------------------------
EXTENDS LspFraming
\* bodies: 2 bytes, 2 bytes with a 2-byte character, 12 bytes (two-digit length) with multi-byte characters
SomeBodies == { <<"b","b">>, <<"m1","m2">>, <<"b","m1","m2","b">>,
                <<"b","b","m1","m2","b","b","b","m1","m2","m2","b","b">> }
=============================================================================
