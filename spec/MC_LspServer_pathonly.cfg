SPECIFICATION Spec
CONSTANTS
  MaxMsgs = 4
  DocCap = 2
  IoCap = 1
  DiagCap = TRUE
  PathOnly = TRUE
  AbruptExit = FALSE
  SpawnOnFull = FALSE
  StartMain = TRUE
  URIs <- ThreeUris
  Alphabet <- DocAlphabet
INVARIANTS TypeOK OutputIsSequentialSemantics ExitStatus CompleteAtGracefulEnd LastDiagnosticsAreFinal NoDiagnosticsWithoutCapability StrictIsolation
CHECK_DEADLOCK FALSE
