SPECIFICATION Spec
CONSTANTS
  MaxLexemes = 30
  MaxEdits = 0
  MaxLen = 400
INVARIANTS EmitLexemes
CHECK_DEADLOCK FALSE
