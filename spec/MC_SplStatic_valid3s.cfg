SPECIFICATION Spec
CONSTANTS
  MaxTok = 17
  MaxDecls = 3
  MinDecls = 3
  TypeNames <- TN
  ProcNames <- PN
  VarNames <- VN
  Faults <- NoFaults
  OnlyFaulty = FALSE
  Grow = 0
  Shadowing = FALSE
  ForceAfter = 0
CONSTRAINT SizeBound
INVARIANTS Balanced UsesBound EmitInv
CHECK_DEADLOCK FALSE
