SPECIFICATION Spec
POSTCONDITION AllConsumed
CHECK_DEADLOCK FALSE
