SPECIFICATION Spec
CONSTANTS
  MaxTok = 140
  MaxDecls = 4
  MinDecls = 3
  TypeNames <- TN
  ProcNames <- PN
  VarNames <- VN
  Faults <- BuildFaults
  OnlyFaulty = TRUE
  Grow = 50
  Shadowing = FALSE
  ForceAfter = 0
CONSTRAINT SizeBound
INVARIANTS Balanced UsesBound EmitInv
CHECK_DEADLOCK FALSE
