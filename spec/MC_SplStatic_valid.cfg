SPECIFICATION Spec
CONSTANTS
  MaxTok = 15
  MaxDecls = 2
  MinDecls = 1
  TypeNames <- TN
  ProcNames <- PN
  VarNames <- VN
  Faults <- NoFaults
  OnlyFaulty = FALSE
  Grow = 0
  Shadowing = FALSE
  ForceAfter = 0
  Slim = FALSE
  Balance = FALSE
CONSTRAINT SizeBound
INVARIANTS Balanced UsesBound CheckAgrees EmitInv
CHECK_DEADLOCK FALSE
