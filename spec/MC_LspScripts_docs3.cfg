SPECIFICATION GSpec
CONSTANTS
  MaxMsgs = 3
  DocCap = 1
  IoCap = 1
  DiagCap = TRUE
  PathOnly = FALSE
  AbruptExit = FALSE
  SpawnOnFull = FALSE
  StartMain = TRUE
  ReqTail = 0
  URIs <- ThreeUris
  Alphabet <- DocAlphabet
INVARIANTS OneResponsePerRequest EmitInv
CHECK_DEADLOCK FALSE
