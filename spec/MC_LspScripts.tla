---------------------------- MODULE MC_LspScripts ----------------------------
(* Generator of client scripts with their predicted observations:           *)
(* every sequence of client messages up to MaxMsgs over the alphabet,       *)
(* folded through the sequential semantics ExpStep of LspServer.            *)
(* Every state is a script (each prefix of a session is itself a session    *)
(* that ends by end-of-input), printed as one replay case.                  *)
EXTENDS LspProtocol, Json
CONSTANT ReqTail    \* > 0: the last ReqTail messages are requests and no earlier one is (bursts of notifications)
VARIABLES script, gg, outs
gvars == <<script, gg, outs>>

ConstTrue == TRUE
ConstFalse == FALSE
LifeAlphabet == {"init", "inited", "req", "unk", "sunk", "open", "unote", "shutdown", "exit"}
DocAlphabet == {"open", "change", "close", "req"}
OneUri == {"file:/a"}
ThreeUris == {"file:/a", "untitled:/a", "file:/b"}

GInit == script = <<>> /\ outs = <<>>
         /\ gg = (IF StartMain THEN [G0 EXCEPT !.phase = "main"] ELSE G0)
GNext == /\ Len(script) < MaxMsgs /\ gg.phase # "exited"
         /\ \E m \in Messages :
              /\ ReqTail > 0 => ((Len(script) >= MaxMsgs - ReqTail) <=> m.t = "req")
              /\ LET r == ExpStep(gg, m, Len(script) + 1) IN
                 /\ script' = Append(script, m) /\ gg' = r.g /\ outs' = outs \o r.out
GSpec == GInit /\ [][GNext]_gvars

Case == [script |-> script, out |-> outs, exit |-> gg.exit, diagcap |-> DiagCap, startmain |-> StartMain]
EmitInv == PrintT(<<"SCRIPT", ToJson(Case)>>)
\* simulation: only complete (long) scripts
EmitFinal == Len(script) = MaxMsgs => PrintT(<<"SCRIPT", ToJson(Case)>>)
LoadAlphabet == {"open", "change", "close", "req", "unk", "unote"}
BurstAlphabet == {"open", "change", "req"}

\* sanity of the sequential semantics itself
RespIds == SelectSeq(outs, LAMBDA o : o.k = "resp")
OneResponsePerRequest ==
  /\ Len(RespIds) = Cardinality({n \in 1..Len(script) : script[n].t \in Requests})
  /\ \A i \in 1..Len(RespIds) : script[RespIds[i].id].t \in Requests
  /\ \A i, j \in 1..Len(RespIds) : i < j => RespIds[i].id < RespIds[j].id
ExitOnlyAfterExit == (gg.exit # None) <=> (script # <<>> /\ script[Len(script)].t = "exit")
=============================================================================
