---------------------------- MODULE MC_LexerChain ----------------------------
(* Behaviours beyond the exhaustive bound (simulation):                      *)
(*  - lexeme chains: texts built by concatenating SPL lexemes and            *)
(*    separators (conformance part of C06 on long, lexically valid texts),   *)
(*  - edit chains: histories of edits on such texts (C07 over histories).    *)
EXTENDS SplLexerInc, Json
CONSTANTS MaxLexemes, MaxEdits, MaxLen
VARIABLES text, nlex, hist, init
vars == <<text, nlex, hist, init>>

S(str) == str  \* readability
Lexemes == {
  <<"(">>, <<")">>, <<"[">>, <<"]">>, <<"{">>, <<"}">>, <<"=">>, <<"#">>, <<"<">>, <<"<","=">>, <<">">>, <<">","=">>,
  <<":","=">>, <<":">>, <<",">>, <<";">>, <<"+">>, <<"-">>, <<"*">>, <<"/">>,
  <<"i","f">>, <<"e","l","s","e">>, <<"w","h","i","l","e">>, <<"a","r","r","a","y">>, <<"o","f">>,
  <<"p","r","o","c">>, <<"r","e","f">>, <<"t","y","p","e">>, <<"v","a","r">>,
  <<"x">>, <<"_">>, <<"i","f","x">>, <<"I","f">>, <<"a","_","1">>, <<"m","a","i","n">>, <<"Z","9","_">>,
  <<"0">>, <<"0","0","7">>, <<"1","2","3","4","5","6","7","8","9">>, <<"4","2">>,
  <<"0","x","0","0","0","0","0","0","0","1","0">>, <<"0","0","0","0","0","0","0","0","0","0","0","1","6">>, <<"0","x","0","0","0","0","0","0","0","0","0","0","f","f">>,
  <<"0","x","0">>, <<"0","x","f","F">>, <<"0","x","7","f","f","f","f","f","f">>, <<"0","x","1","A">>,
  <<"'","a","'">>, <<"'","\\","n","'">>, <<"'","'","'">>, <<"'","\\","'">>, <<"'","U2","'">>, <<"'"," ","'">>, <<"'","U4","'">>,
  <<"/","/","\n">>, <<"/","/"," ","x"," ","\n">>, <<"/","/","U3","'","/","/","\n">>, <<"/","/","0","x","\r","\n">>
}
Seps == {<<>>, <<" ">>, <<"\n">>, <<"\t">>, <<"\r","\n">>, <<" "," ">>}
EditIns == {<<>>, <<" ">>, <<"\n">>, <<"'">>, <<"/">>, <<"/","/">>, <<"x">>, <<"0">>, <<"=">>, <<"U2">>, <<"\\">>, <<"n">>,
            <<"i","f">>, <<"0","x">>, <<"'","a","'">>, <<"U4"," ">>}

Init == text = <<>> /\ nlex = 0 /\ hist = <<>> /\ init = <<>>

AddLexeme == /\ hist = <<>> /\ nlex < MaxLexemes
             /\ \E l \in {RandomElement(Lexemes)}, sp \in {RandomElement(Seps)} : text' = text \o l \o sp
             /\ nlex' = nlex + 1 /\ UNCHANGED <<hist, init>>

\* an edit whose window lies anywhere in the text
EditStep == /\ nlex = MaxLexemes /\ Len(hist) < MaxEdits
            /\ \E lo \in {RandomElement(0..Len(text))}, len \in {RandomElement(0..3)}, ins \in {RandomElement(EditIns)} :
                 LET hi == IF lo + len > Len(text) THEN Len(text) ELSE lo + len
                     r == IncLex(text, Lex(text), lo, hi, ins) IN
                 /\ Len(r.new) <= MaxLen
                 /\ Assert(Contract(Lex(text), r), <<"contract violated", text, lo, hi, ins>>)
                 /\ text' = r.new
                 /\ hist' = Append(hist, [lo |-> lo, hi |-> hi, ins |-> ins])
                 /\ init' = IF hist = <<>> THEN text ELSE init
                 /\ UNCHANGED nlex
Next == AddLexeme \/ EditStep
Spec == Init /\ [][Next]_vars

\* emitted when the chain is complete
LexemeCase == [text |-> text, valid |-> LexValid(text), toks |-> Lex(text)]
ChainCase == [init |-> init, steps |-> hist]
EmitLexemes == (nlex = MaxLexemes /\ hist = <<>>) => PrintT(<<"CASE", ToJson(LexemeCase)>>)
EmitChain == (Len(hist) = MaxEdits /\ MaxEdits > 0) => PrintT(<<"CHAIN", ToJson(ChainCase)>>)
\* (RandomElement: TLC's simulator otherwise evaluates every successor of a state
\* before choosing one, which is quadratic in the text length here.  It is bound
\* through a singleton \E because TLC re-evaluates LET definitions at every use.)
=============================================================================
