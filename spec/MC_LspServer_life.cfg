SPECIFICATION Spec
CONSTANTS
  MaxMsgs = 5
  DocCap = 1
  IoCap = 1
  DiagCap = TRUE
  PathOnly = FALSE
  AbruptExit = FALSE
  SpawnOnFull = FALSE
  StartMain = FALSE
  URIs <- OneUri
  Alphabet <- LifeAlphabet
INVARIANTS TypeOK OutputIsSequentialSemantics ExitStatus CompleteAtGracefulEnd CompleteAtAnyExit LastDiagnosticsAreFinal NoDiagnosticsWithoutCapability Isolation
CHECK_DEADLOCK FALSE
