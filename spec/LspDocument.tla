---------------------------- MODULE LspDocument ----------------------------
(* The text a client and the server share, under the LSP rules.             *)
(*                                                                          *)
(* A text is a sequence of abstract characters (SplChars): "a" stands for   *)
(* any 1-unit character, "U2"/"U3" for 2-/3-byte characters that are ONE    *)
(* UTF-16 unit, "U4" for an astral character (4 bytes, TWO UTF-16 units).   *)
(* Lines end at "\n", at "\r\n" and at a lone "\r".                         *)
(*                                                                          *)
(*   Offset(text, l, c)  character offset (0..Len) denoted by line l and    *)
(*                       UTF-16 column c:                                   *)
(*        a column beyond the end of line l  -> the end of line l (before   *)
(*                                              its terminator)             *)
(*        a line beyond the last line        -> the end of the text         *)
(*   PosOf(text, o)      the position of offset o                           *)
(*   ApplyChange         ranged replacement / full-text replacement         *)
(*   ApplyBatch          changes of one notification, each relative to its  *)
(*                       predecessor's result                               *)
EXTENDS SplChars, TLC

IsCR(s, i) == i >= 1 /\ i <= Len(s) /\ s[i] = "\r"
IsLF(s, i) == i >= 1 /\ i <= Len(s) /\ s[i] = "\n"
\* character i ends a line (its terminator is complete at i)
EndsLine(s, i) == IsLF(s, i) \/ (IsCR(s, i) /\ ~IsLF(s, i + 1))
\* character i belongs to a line terminator
InTerminator(s, i) == IsLF(s, i) \/ IsCR(s, i)

\* 0-based line number of the line containing character index i (1..Len+1)
RECURSIVE LineOf(_, _)
LineOf(s, i) == IF i <= 1 THEN 0 ELSE LineOf(s, i - 1) + (IF EndsLine(s, i - 1) THEN 1 ELSE 0)
NumLines(s) == LineOf(s, Len(s) + 1) + 1

\* first character index of line l (Len+1 if the line is empty at the end)
RECURSIVE LineStartFrom(_, _, _)
LineStartFrom(s, l, i) == IF l = 0 THEN i
                          ELSE IF i > Len(s) THEN i
                          ELSE LineStartFrom(s, IF EndsLine(s, i) THEN l - 1 ELSE l, i + 1)
LineStart(s, l) == LineStartFrom(s, l, 1)
\* index just after the last content character of the line starting at i
RECURSIVE ContentEnd(_, _)
ContentEnd(s, i) == IF i > Len(s) \/ InTerminator(s, i) THEN i ELSE ContentEnd(s, i + 1)

\* walk `c` UTF-16 units into the line content [i, e); stop at e.  A column inside a
\* surrogate pair is not a position of the text (never generated).
RECURSIVE Walk(_, _, _, _)
Walk(s, i, e, c) == IF c = 0 \/ i >= e THEN i ELSE Walk(s, i + 1, e, IF c >= U16(s[i]) THEN c - U16(s[i]) ELSE 0)

\* character OFFSET (0-based count of characters before the position)
Offset(s, l, c) ==
  IF l >= NumLines(s) THEN Len(s)
  ELSE LET i == LineStart(s, l) IN Walk(s, i, ContentEnd(s, i), c) - 1

\* position of an offset that is not inside a "\r\n" pair
PosOf(s, o) ==
  LET l == LineOf(s, o + 1) i == LineStart(s, l) IN [line |-> l, col |-> Units(SubSeq(s, i, o))]

OnBoundary(s, l, c) ==      \* (l, c) denotes a character boundary (not inside a surrogate pair)
  l >= NumLines(s) \/
  LET i == LineStart(s, l) e == ContentEnd(s, i) IN
  c >= Units(SubSeq(s, i, e - 1)) \/ \E k \in i..e : Units(SubSeq(s, i, k - 1)) = c

\* a change: [full |-> BOOLEAN, sl, sc, el, ec |-> Nat, ins |-> text]
ApplyChange(s, ch) ==
  IF ch.full THEN ch.ins
  ELSE LET a == Offset(s, ch.sl, ch.sc) b == Offset(s, ch.el, ch.ec) IN
       SubSeq(s, 1, a) \o ch.ins \o SubSeq(s, (IF b < a THEN a ELSE b) + 1, Len(s))

RECURSIVE ApplyBatch(_, _)
ApplyBatch(s, chs) == IF chs = <<>> THEN s ELSE ApplyBatch(ApplyChange(s, Head(chs)), Tail(chs))

-----------------------------------------------------------------------------
\* sanity of the model itself
PosRoundTrip(s) ==
  \A o \in 0..Len(s) :
     ~(IsCR(s, o) /\ IsLF(s, o + 1)) =>          \* not between CR and LF
        LET p == PosOf(s, o) IN Offset(s, p.line, p.col) = o
OffsetMonotone(s) ==
  \A l \in 0..NumLines(s), c \in 0..(Len(s) + 1) :
     /\ Offset(s, l, c) <= Offset(s, l, c + 1)
     /\ Offset(s, l, c) <= Offset(s, l + 1, 0)
     /\ Offset(s, l, c) \in 0..Len(s)
FullTextChangeReplaces(s) ==
  \A t \in {<<>>, <<"a">>, <<"U4", "\n">>} : ApplyChange(s, [full |-> TRUE, sl |-> 0, sc |-> 0, el |-> 0, ec |-> 0, ins |-> t]) = t
=============================================================================
