---------------------------- MODULE MC_SplStatic ----------------------------
EXTENDS SplStatic, Json
TN == {"vec", "mat"}
TN0 == {}
TN1 == {"vec"}
PN1 == {"p"}
PN0 == {}
VN1 == {"a"}
PN == {"p", "q"}
VN == {"a", "i"}
\* simulation: names that differ only in letter case are different names
VNc == {"a", "i", "A"}
PNc == {"p", "q", "P"}
TNc == {"vec", "mat", "Vec"}
NoFaults == {}
BuildFaults == {"UndefinedType", "NotAType", "RedeclarationAsType", "RedeclarationAsProcedure", "RedeclarationAsParameter",
                "RedeclarationAsVariable", "MustBeAReferenceParameter", "MainIsMissing", "MainIsNotAProcedure", "MainMustNotHaveParameters"}
SemFaults == {"AssignmentHasDifferentTypes", "AssignmentRequiresIntegers", "IfConditionMustBeBoolean", "WhileConditionMustBeBoolean",
              "UndefinedProcedure", "CallOfNoneProcedure", "ArgumentsTypeMismatch", "ArgumentMustBeAVariable", "TooFewArguments",
              "TooManyArguments", "OperatorDifferentTypes", "ComparisonNonInteger", "ArithmeticOperatorNonInteger", "UndefinedVariable",
              "NotAVariable", "IndexingNonArray", "IndexingWithNonInteger"}
AllFaults == BuildFaults \cup SemFaults
ArgFaults == {"ArgumentsTypeMismatch"}

Compact(x) == IF x.t = "tok" THEN "t " \o x.k \o " " \o x.s \o (IF x.k = "Ident" THEN "|" \o x.b \o "|" \o x.r ELSE "")
              ELSE IF x.t = "open" THEN "o " \o x.k \o " " \o x.s ELSE "c"
Case == [out |-> [i \in DOMAIN out |-> Compact(out[i])], ntok |-> ntok, fault |-> fault,
         decls |-> GlobalSigs \o ParamSigs \o lsigs \o BuiltinSigs]
EmitInv == Wanted => PrintT(<<"PROG", ToJson(Case)>>)
DbgInv == Done => PrintT(<<"DONE", ntok, fault>>)
\* the generator (rules as guards) and the checker (rules as judgements) agree on every finished program
SC == INSTANCE SplCheck
CheckAgrees == Done => LET v == SC!Violations(out)
                           want == IF fault = NoFault THEN {} ELSE {fault} IN
                       \/ v = want
                       \/ PrintT(<<"SPLCHECK-DISAGREES", want, v, ToJson(Case)>>) /\ FALSE
=============================================================================
