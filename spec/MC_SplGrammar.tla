---------------------------- MODULE MC_SplGrammar ----------------------------
EXTENDS SplGrammar, Json
\* constant sets (cfg files cannot write records / some strings)
TN1 == {"t"}
PN1 == {"main", "p"}
CN1 == {"p"}
VN1 == {"x"}
TN2 == {"t", "vec"}
VN2 == {"x", "i"}
Lit1 == {[k |-> "Int", s |-> "1", v |-> "1"]}
LitAll == {[k |-> "Int", s |-> "1", v |-> "1"], [k |-> "Int", s |-> "007", v |-> "7"], [k |-> "Hex", s |-> "0x1F", v |-> "31"],
           [k |-> "Hex", s |-> "0x0a", v |-> "10"], [k |-> "Char", s |-> "'a'", v |-> "97"], [k |-> "Char", s |-> "'\\n'", v |-> "10"]}
Lit3 == {[k |-> "Int", s |-> "1", v |-> "1"], [k |-> "Hex", s |-> "0x1F", v |-> "31"], [k |-> "Char", s |-> "'a'", v |-> "97"]}
Rel1 == {"<"}
RelAll == {"=", "#", "<", "<=", ">", ">="}
Add1 == {"+"}
AddAll == {"+", "-"}
Mul1 == {"*"}
MulAll == {"*", "/"}

\* compact rendering of the emitted sequence: "t Kind spelling" | "o NodeKind attr" | "c"
Compact(x) == IF x.t = "tok" THEN "t " \o x.k \o " " \o x.s
              ELSE IF x.t = "open" THEN "o " \o x.k \o " " \o x.a ELSE "c"
Case == [out |-> [i \in DOMAIN out |-> Compact(out[i])], ntok |-> ntok]
EmitInv == Done => PrintT(<<"PROG", ToJson(Case)>>)
=============================================================================
