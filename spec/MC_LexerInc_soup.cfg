SPECIFICATION Spec
CONSTANTS
  MaxLen = 3
  MaxIns = 1
  Alphabet <- AlphaLA
  Emit = TRUE
INVARIANTS TilingInv EmitInv
CHECK_DEADLOCK FALSE
