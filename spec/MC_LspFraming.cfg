SPECIFICATION Spec
CONSTANTS
  Bodies <- SomeBodies
  MaxFrames = 3
  MinLen = 21
  CountChars = FALSE
INVARIANTS DecodedIsPrefix SegmentationIndependence CleanEof NoStuckDecoder
CHECK_DEADLOCK FALSE
