---------------------------- MODULE LspFraming ----------------------------
(* Base-protocol framing: a byte stream, delivered to the server in         *)
(* arbitrary chunks, is decoded into messages.                              *)
(*                                                                          *)
(* Bytes are abstract: "H" (one byte of the header name `Content-Length: `, *)
(* 16 of them), decimal digits, "\r", "\n", and body bytes "b" (ASCII) and  *)
(* "m1","m2" (first / continuation byte of a multi-byte character).         *)
(*                                                                          *)
(* The DECODER is modelled after LSCodec::decode + tokio's FramedRead loop: *)
(*   guard  : fewer than MinLen bytes buffered -> wait                      *)
(*   header : no \r\n\r\n yet -> wait (partial header)                      *)
(*   body   : fewer than start + Content-Length bytes -> wait               *)
(*   else   : emit the body, advance the buffer, try again                  *)
(* The ENCODER announces Content-Length = byte length of the body;          *)
(* CountChars is the deviation "length counted in characters".              *)
EXTENDS Naturals, Sequences, TLC

CONSTANTS Bodies,      \* set of message bodies (sequences of body bytes) a stream may contain
          MaxFrames,   \* stream = up to MaxFrames frames
          MinLen,      \* the decoder's minimum-length guard (21 in io.rs)
          CountChars   \* deviation: encoder counts characters, not bytes

HeaderName == [i \in 1..16 |-> "H"]

RECURSIVE DigitsOf(_)
DigitsOf(n) == IF n < 10 THEN << CASE n = 0 -> "0" [] n = 1 -> "1" [] n = 2 -> "2" [] n = 3 -> "3" [] n = 4 -> "4"
                                   [] n = 5 -> "5" [] n = 6 -> "6" [] n = 7 -> "7" [] n = 8 -> "8" [] n = 9 -> "9" >>
               ELSE DigitsOf(n \div 10) \o DigitsOf(n % 10)
DVal(c) == CASE c = "0" -> 0 [] c = "1" -> 1 [] c = "2" -> 2 [] c = "3" -> 3 [] c = "4" -> 4
             [] c = "5" -> 5 [] c = "6" -> 6 [] c = "7" -> 7 [] c = "8" -> 8 [] c = "9" -> 9
RECURSIVE NumOf(_, _)
NumOf(ds, acc) == IF ds = <<>> THEN acc ELSE NumOf(Tail(ds), acc * 10 + DVal(Head(ds)))

\* characters of a body: "m2" continues the character started by "m1"
NChars(body) == Len(SelectSeq(body, LAMBDA b : b # "m2"))
AnnouncedLen(body) == IF CountChars THEN NChars(body) ELSE Len(body)
Frame(body) == HeaderName \o DigitsOf(AnnouncedLen(body)) \o <<"\r", "\n", "\r", "\n">> \o body

VARIABLES frames,   \* the messages of the stream (chosen initially)
          stream,   \* their encoding
          pos,      \* bytes delivered so far
          buf,      \* decoder buffer
          decoded,  \* messages decoded so far
          eof       \* end of input signalled to the decoder: "no" | "clean" | "error"
vars == <<frames, stream, pos, buf, decoded, eof>>

RECURSIVE Concat(_)
Concat(fs) == IF fs = <<>> THEN <<>> ELSE Frame(Head(fs)) \o Concat(Tail(fs))

RECURSIVE FindTerm(_, _)
FindTerm(b, i) == IF i + 3 > Len(b) THEN 0
                  ELSE IF b[i] = "\r" /\ b[i + 1] = "\n" /\ b[i + 2] = "\r" /\ b[i + 3] = "\n" THEN i
                  ELSE FindTerm(b, i + 1)

\* one call of decode(): <<message or "none", remaining buffer>>
Decode(b) ==
  IF Len(b) < MinLen THEN [msg |-> <<"none">>, rest |-> b]
  ELSE LET t == FindTerm(b, 1) IN
       IF t = 0 THEN [msg |-> <<"none">>, rest |-> b]
       ELSE LET n == NumOf(SubSeq(b, 17, t - 1), 0)
                start == t + 4 IN
            IF Len(b) < start - 1 + n THEN [msg |-> <<"none">>, rest |-> b]
            ELSE [msg |-> SubSeq(b, start, start + n - 1), rest |-> SubSeq(b, start + n, Len(b))]

\* FramedRead: decode until "none"
RECURSIVE Drain(_, _)
Drain(b, acc) == LET d == Decode(b) IN
                 IF d.msg = <<"none">> THEN [buf |-> b, out |-> acc] ELSE Drain(d.rest, Append(acc, d.msg))

Init == /\ frames \in UNION {[1..n -> Bodies] : n \in 1..MaxFrames}
        /\ stream = Concat(frames)
        /\ pos = 0 /\ buf = <<>> /\ decoded = <<>> /\ eof = "no"

\* the client writes the next k bytes (any segmentation), the reader task reads them and runs the decoder
Deliver == /\ eof = "no" /\ pos < Len(stream)
           /\ \E k \in 1..(Len(stream) - pos) :
                LET r == Drain(buf \o SubSeq(stream, pos + 1, pos + k), decoded) IN
                /\ pos' = pos + k /\ buf' = r.buf /\ decoded' = r.out
           /\ UNCHANGED <<frames, stream, eof>>

\* end of input: a non-empty buffer is an error ("bytes remaining on stream")
Eof == /\ eof = "no" /\ pos = Len(stream)
       /\ eof' = IF buf = <<>> THEN "clean" ELSE "error"
       /\ UNCHANGED <<frames, stream, pos, buf, decoded>>

Next == Deliver \/ Eof
Spec == Init /\ [][Next]_vars

\* C19: whatever the segmentation, the decoded messages are a prefix of the sent ones ...
DecodedIsPrefix == Len(decoded) <= Len(frames) /\ \A i \in 1..Len(decoded) : decoded[i] = frames[i]
\* ... and once all bytes are delivered, all of them (no stuck decoder, clean end)
SegmentationIndependence == pos = Len(stream) => (decoded = frames /\ buf = <<>>)
CleanEof == eof # "error"
\* a complete frame in the buffer never waits
NoStuckDecoder == Decode(buf).msg = <<"none">>
=============================================================================
