------------------------------ MODULE SplCheck ------------------------------
(* An independent formulation of SPL's static semantics: a CHECKER that     *)
(* walks a program given as the bracketed terminal stream of the           *)
(* derivation machines (records with t = "tok" | "open" | "close", k =     *)
(* token / node kind, s = spelling / node attribute) and returns the set   *)
(* of violated rules.  It uses the tree structure and the SPELLINGS only:  *)
(* never the bindings, roles or culprit brackets the generator SplStatic   *)
(* attaches.  SplStatic states the rules as guards of productions (what    *)
(* may be generated); this module states them as judgements (what is       *)
(* wrong with a given program).  MC_SplStatic checks on every finished     *)
(* program that the two agree:  Violations(out) = {} for a program         *)
(* generated as valid, = {f} for one generated with fault f.               *)
(*                                                                          *)
(* Rules (SPL language report; names are the implementation's message      *)
(* kinds, one per rule):                                                    *)
(*  pass 1, declarations in source order                                    *)
(*   - a type expression may name int and types declared EARLIER            *)
(*     (UndefinedType; a name that denotes something else: NotAType);       *)
(*     every `array [n] of T` creates a NEW type (name equivalence)         *)
(*   - global names are unique, predefined names included                   *)
(*     (RedeclarationAsType / RedeclarationAsProcedure)                     *)
(*   - parameter types are resolved globally, local variable types with     *)
(*     the procedure's own names first; names of a procedure are unique     *)
(*     (RedeclarationAsParameter / RedeclarationAsVariable); an array       *)
(*     parameter must be a reference parameter (MustBeAReferenceParameter)  *)
(*   - a procedure is entered after its header and locals were processed    *)
(*   - main exists, is a procedure, has no parameters                       *)
(*  pass 2, procedure bodies with all global names visible, locals first    *)
(*   - the rules of assignments, conditions, calls, operators, variables    *)
(*     and indexing listed at the judgements below                          *)
(* An entity whose declaration is faulty has the unknown type, which        *)
(* suppresses the checks that depend on it; an operator expression has the  *)
(* type its operator yields whatever its operands are.                      *)
EXTENDS Naturals, Sequences, FiniteSets, TLC

INTT == <<"int">>
BOOLT == <<"bool">>
UNKT == <<"unk">>
ArrT(id, size, base) == <<"arr", id, size, base>>     \* id: position of the type expression = identity of the type
IsArrT(t) == t[1] = "arr"

\* ---- the bracket stream as a tree ------------------------------------------
RECURSIVE StripCulprits(_, _, _)
StripCulprits(s, i, stk) ==
  IF i > Len(s) THEN <<>>
  ELSE IF s[i].t = "open"
       THEN IF s[i].k = "CULPRIT" THEN StripCulprits(s, i + 1, <<TRUE>> \o stk)
            ELSE <<s[i]>> \o StripCulprits(s, i + 1, <<FALSE>> \o stk)
  ELSE IF s[i].t = "close"
       THEN IF Head(stk) THEN StripCulprits(s, i + 1, Tail(stk)) ELSE <<s[i]>> \o StripCulprits(s, i + 1, Tail(stk))
  ELSE <<s[i]>> \o StripCulprits(s, i + 1, stk)

RECURSIVE MatchFrom(_, _, _)
MatchFrom(s, i, depth) ==
  IF s[i].t = "open" THEN MatchFrom(s, i + 1, depth + 1)
  ELSE IF s[i].t = "close" THEN (IF depth = 1 THEN i ELSE MatchFrom(s, i + 1, depth - 1))
  ELSE MatchFrom(s, i + 1, depth)
End(s, i) == MatchFrom(s, i, 0)                         \* s[i] is an open: index of its close

RECURSIVE KidsFrom(_, _, _)
KidsFrom(s, j, e) == IF j >= e THEN <<>>
                     ELSE IF s[j].t = "open" THEN <<j>> \o KidsFrom(s, End(s, j) + 1, e)
                     ELSE KidsFrom(s, j + 1, e)
Kids(s, i) == KidsFrom(s, i + 1, End(s, i))             \* the child nodes of node i, in order
KidsOf(s, i, kinds) == SelectSeq(Kids(s, i), LAMBDA j : s[j].k \in kinds)
RECURSIVE OwnToksFrom(_, _, _)
OwnToksFrom(s, j, e) == IF j >= e THEN <<>>
                        ELSE IF s[j].t = "open" THEN OwnToksFrom(s, End(s, j) + 1, e)
                        ELSE IF s[j].t = "tok" THEN <<s[j].k>> \o OwnToksFrom(s, j + 1, e)
                        ELSE OwnToksFrom(s, j + 1, e)
OwnToks(s, i) == OwnToksFrom(s, i + 1, End(s, i))       \* kinds of the terminals directly below node i

\* ---- tables --------------------------------------------------------------------
\* a table: function from names to entries [kind, ty, params]; params: seq of [ref, ty]
NoEntry == [kind |-> "none", ty |-> UNKT, params |-> <<>>]
Get(tab, n) == IF n \in DOMAIN tab THEN tab[n] ELSE NoEntry
Put(tab, n, e) == [x \in DOMAIN tab \cup {n} |-> IF x = n THEN e ELSE tab[x]]
Look(loc, glob, n) == IF n \in DOMAIN loc THEN loc[n] ELSE Get(glob, n)

P(r, t) == [ref |-> r, ty |-> t]
Proc(ps) == [kind |-> "proc", ty |-> UNKT, params |-> ps]
Predefined ==
  [n \in {"int", "printi", "printc", "readi", "readc", "exit", "time", "clearAll", "setPixel", "drawLine", "drawCircle"} |->
     CASE n = "int" -> [kind |-> "type", ty |-> INTT, params |-> <<>>]
       [] n \in {"printi", "printc", "clearAll"} -> Proc(<<P(FALSE, INTT)>>)
       [] n \in {"readi", "readc", "time"} -> Proc(<<P(TRUE, INTT)>>)
       [] n = "exit" -> Proc(<<>>)
       [] n = "setPixel" -> Proc(<<P(FALSE, INTT), P(FALSE, INTT), P(FALSE, INTT)>>)
       [] n = "drawLine" -> Proc(<<P(FALSE, INTT), P(FALSE, INTT), P(FALSE, INTT), P(FALSE, INTT), P(FALSE, INTT)>>)
       [] n = "drawCircle" -> Proc(<<P(FALSE, INTT), P(FALSE, INTT), P(FALSE, INTT), P(FALSE, INTT)>>)]

R(t, e) == [ty |-> t, errs |-> e]

\* ---- type expressions ------------------------------------------------------------
RECURSIVE TypeExpr(_, _, _, _)
TypeExpr(s, i, loc, glob) ==
  IF s[i].k = "NamedType"
  THEN LET e == Look(loc, glob, s[i].s) IN
       IF e.kind = "none" THEN R(UNKT, {"UndefinedType"})
       ELSE IF e.kind # "type" THEN R(UNKT, {"NotAType"})
       ELSE R(e.ty, {})
  ELSE \* ArrayType: IntLit, element type
       LET ks == Kids(s, i)
           inner == TypeExpr(s, ks[2], loc, glob) IN
       IF inner.ty = UNKT THEN inner ELSE R(ArrT(i, s[ks[1]].s, inner.ty), {})

\* ---- expressions -----------------------------------------------------------------
RECURSIVE Expr(_, _, _, _)
Expr(s, i, loc, glob) ==
  LET k == s[i].k ks == Kids(s, i) IN
  CASE k = "IntLit" -> R(INTT, {})
    [] k = "Bracketed" -> Expr(s, ks[1], loc, glob)
    [] k = "NamedVar" ->
         LET e == Look(loc, glob, s[i].s) IN
         IF e.kind = "none" THEN R(UNKT, {"UndefinedVariable"})
         ELSE IF e.kind # "var" THEN R(UNKT, {"NotAVariable"})
         ELSE R(e.ty, {})
    [] k = "ArrayAccess" ->
         LET b == Expr(s, ks[1], loc, glob)
             x == Expr(s, ks[2], loc, glob)
             eb == IF b.ty # UNKT /\ ~IsArrT(b.ty) THEN {"IndexingNonArray"} ELSE {}
             ex == IF x.ty # UNKT /\ x.ty # INTT THEN {"IndexingWithNonInteger"} ELSE {} IN
         R(IF IsArrT(b.ty) THEN b.ty[4] ELSE UNKT, b.errs \cup x.errs \cup eb \cup ex)
    [] k = "Unary" ->
         LET a == Expr(s, ks[1], loc, glob) IN
         R(INTT, a.errs \cup (IF a.ty \notin {UNKT, INTT} THEN {"ArithmeticOperatorNonInteger"} ELSE {}))
    [] k = "Binary" ->
         LET a == Expr(s, ks[1], loc, glob)
             b == Expr(s, ks[2], loc, glob)
             cmp == s[i].s \in {"<", "<=", ">", ">=", "=", "#"}
             own == IF a.ty = UNKT \/ b.ty = UNKT THEN {}
                    ELSE IF a.ty = INTT /\ b.ty = INTT THEN {}
                    ELSE IF a.ty = INTT \/ b.ty = INTT THEN {"OperatorDifferentTypes"}
                    ELSE {IF cmp THEN "ComparisonNonInteger" ELSE "ArithmeticOperatorNonInteger"} IN
         \* (two different non-integer operand types violate both rules; as the implementation, the checker names the
         \*  integer rule then - programs with more than one violation are outside the listed property)
         \* the operator decides the result type, also when an operand is faulty (only the operator's own check is suppressed)
         R(IF cmp THEN BOOLT ELSE INTT, a.errs \cup b.errs \cup own)
    [] OTHER -> R(UNKT, {"?unknown expression node " \o k})

IsVariableNode(s, i) == s[i].k \in {"NamedVar", "ArrayAccess"}

\* ---- statements ------------------------------------------------------------------
RECURSIVE ArgErrs(_, _, _, _, _, _)
ArgErrs(s, args, params, j, loc, glob) ==
  IF j > Len(args) \/ j > Len(params) THEN {}
  ELSE LET a == Expr(s, args[j], loc, glob)
           own == IF params[j].ref /\ ~IsVariableNode(s, args[j]) THEN {"ArgumentMustBeAVariable"}
                  ELSE IF a.ty # UNKT /\ params[j].ty # UNKT /\ a.ty # params[j].ty THEN {"ArgumentsTypeMismatch"}
                  ELSE {} IN
       a.errs \cup own \cup ArgErrs(s, args, params, j + 1, loc, glob)

RECURSIVE Stmt(_, _, _, _)
RECURSIVE Stmts(_, _, _, _)
Stmts(s, is, loc, glob) == IF is = <<>> THEN {} ELSE Stmt(s, Head(is), loc, glob) \cup Stmts(s, Tail(is), loc, glob)
Stmt(s, i, loc, glob) ==
  LET k == s[i].k ks == Kids(s, i) IN
  CASE k = "Empty" -> {}
    [] k = "Block" -> Stmts(s, ks, loc, glob)
    [] k = "Assign" ->
         LET l == Expr(s, ks[1], loc, glob)
             r == Expr(s, ks[2], loc, glob)
             own == IF l.ty = UNKT \/ r.ty = UNKT THEN {}
                    ELSE IF l.ty # r.ty THEN {"AssignmentHasDifferentTypes"}
                    ELSE IF l.ty # INTT THEN {"AssignmentRequiresIntegers"} ELSE {} IN
         l.errs \cup r.errs \cup own
    [] k \in {"If", "While"} ->
         LET c == Expr(s, ks[1], loc, glob)
             own == IF c.ty \notin {UNKT, BOOLT} THEN {IF k = "If" THEN "IfConditionMustBeBoolean" ELSE "WhileConditionMustBeBoolean"} ELSE {} IN
         c.errs \cup own \cup Stmts(s, Tail(ks), loc, glob)
    [] k = "Call" ->
         \* first child: the Ident node of the callee; the others: arguments
         LET e == Look(loc, glob, s[i].s)
             args == Tail(ks) IN
         IF e.kind = "none" THEN {"UndefinedProcedure"}
         ELSE IF e.kind # "proc" THEN {"CallOfNoneProcedure"}
         ELSE (IF Len(args) < Len(e.params) THEN {"TooFewArguments"} ELSE IF Len(args) > Len(e.params) THEN {"TooManyArguments"} ELSE {})
              \cup ArgErrs(s, args, e.params, 1, loc, glob)
    [] OTHER -> {"?unknown statement node " \o k}

\* ---- pass 1 ----------------------------------------------------------------------
\* parameters of ProcDec i: folds over the Param nodes; state [loc, params, errs]
RECURSIVE Params(_, _, _, _)
Params(s, ps, st, glob) ==
  IF ps = <<>> THEN st
  ELSE LET p == Head(ps)
           name == s[Kids(s, p)[1]].s
           t == TypeExpr(s, Kids(s, p)[2], <<>>, glob)          \* parameter types: global names only
           isref == s[p].s = "ref"
           dup == name \in DOMAIN st.loc
           own == (IF dup THEN {"RedeclarationAsParameter"} ELSE {})
                  \cup (IF IsArrT(t.ty) /\ ~isref THEN {"MustBeAReferenceParameter"} ELSE {})
           entry == [kind |-> "var", ty |-> t.ty, params |-> <<>>] IN
       Params(s, Tail(ps),
              [loc |-> IF dup THEN st.loc ELSE Put(st.loc, name, entry),
               params |-> Append(st.params, P(isref, t.ty)),
               errs |-> st.errs \cup t.errs \cup own], glob)

RECURSIVE Locals(_, _, _, _)
Locals(s, vs, st, glob) ==
  IF vs = <<>> THEN st
  ELSE LET v == Head(vs)
           name == s[v].s
           t == TypeExpr(s, Kids(s, v)[2], st.loc, glob)         \* locals first
           dup == name \in DOMAIN st.loc
           entry == [kind |-> "var", ty |-> t.ty, params |-> <<>>] IN
       Locals(s, Tail(vs),
              [st EXCEPT !.loc = IF dup THEN st.loc ELSE Put(st.loc, name, entry),
                         !.errs = st.errs \cup t.errs \cup (IF dup THEN {"RedeclarationAsVariable"} ELSE {})], glob)

\* global declarations in order; state [glob, procs (seq of [node, loc] for pass 2), errs]
RECURSIVE Globals(_, _, _)
Globals(s, ds, st) ==
  IF ds = <<>> THEN st
  ELSE LET d == Head(ds)
           name == s[d].s
           dup == name \in DOMAIN st.glob IN
       IF s[d].k = "TypeDec"
       THEN LET t == TypeExpr(s, Kids(s, d)[2], <<>>, st.glob)
                own == IF name = "main" THEN {"MainIsNotAProcedure"} ELSE IF dup THEN {"RedeclarationAsType"} ELSE {} IN
            Globals(s, Tail(ds),
                    [st EXCEPT !.glob = IF dup \/ name = "main" THEN st.glob ELSE Put(st.glob, name, [kind |-> "type", ty |-> t.ty, params |-> <<>>]),
                               !.errs = st.errs \cup t.errs \cup own,
                               !.mainIsType = st.mainIsType \/ name = "main"])
       ELSE LET ps == Params(s, KidsOf(s, d, {"Param"}), [loc |-> <<>>, params |-> <<>>, errs |-> {}], st.glob)
                ls == Locals(s, KidsOf(s, d, {"VarDec"}), [loc |-> ps.loc, errs |-> {}], st.glob)
                own == (IF dup THEN {"RedeclarationAsProcedure"} ELSE {})
                       \cup (IF name = "main" /\ ~dup /\ ps.params # <<>> THEN {"MainMustNotHaveParameters"} ELSE {}) IN
            Globals(s, Tail(ds),
                    [st EXCEPT !.glob = IF dup THEN st.glob ELSE Put(st.glob, name, Proc(ps.params)),
                               !.procs = IF dup THEN st.procs ELSE Append(st.procs, [node |-> d, loc |-> ls.loc]),
                               !.errs = st.errs \cup ps.errs \cup ls.errs \cup own])

RECURSIVE Bodies(_, _, _)
Bodies(s, procs, glob) ==
  IF procs = <<>> THEN {}
  ELSE Stmts(s, KidsOf(s, Head(procs).node, {"Empty", "Block", "Assign", "If", "While", "Call"}), Head(procs).loc, glob)
       \cup Bodies(s, Tail(procs), glob)

Violations(out) ==
  LET s == StripCulprits(out, 1, <<>>)
      p1 == Globals(s, Kids(s, 1), [glob |-> Predefined, procs |-> <<>>, errs |-> {}, mainIsType |-> FALSE])
      mainErr == IF p1.mainIsType THEN {} ELSE IF Get(p1.glob, "main").kind # "proc" THEN {"MainIsMissing"} ELSE {} IN
  p1.errs \cup mainErr \cup Bodies(s, p1.procs, p1.glob)
=============================================================================
