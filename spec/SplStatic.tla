---------------------------- MODULE SplStatic ----------------------------
(* The SPL derivation machine made ATTRIBUTE-DIRECTED: every completed      *)
(* behaviour is a WELL-TYPED program (plus, optionally, exactly one added   *)
(* violation of one SPL rule) whose identifier terminals carry the          *)
(* declaration they are bound to under SPL scoping.                         *)
(*                                                                          *)
(* Phase "plan":   the global declarations in source order (names, type     *)
(*                 expressions, parameter lists); types are usable only     *)
(*                 after their declaration, procedures everywhere.          *)
(* Phase "derive": leftmost derivation as in SplGrammar, but nonterminals   *)
(*                 carry the semantic type they must produce and the        *)
(*                 productions are guarded by SPL's declaration, scoping    *)
(*                 and typing rules:                                        *)
(*   - name equivalence of array types (every array type expression         *)
(*     creates a new type; `type a = b` is an alias)                        *)
(*   - arrays are passed by reference only; a reference argument is a       *)
(*     variable of exactly the parameter's type                             *)
(*   - assignments, operands, indices are int; conditions are comparisons   *)
(*   - locals and parameters of the enclosing procedure before globals      *)
(*                                                                          *)
(* FAULT PRODUCTIONS (one per rule of the SPL rule catalogue, enabled by    *)
(* the constant Faults, at most one per program) produce a program that     *)
(* violates exactly that rule; the culprit construct is bracketed by        *)
(* open("CULPRIT", rule) ... close.  Each is built so that no second rule   *)
(* fires (unknown types suppress dependent checks; faulty procedures are    *)
(* never called).                                                           *)
EXTENDS Naturals, Sequences, FiniteSets, TLC

CONSTANTS MaxTok, MaxDecls, MinDecls,
          TypeNames, ProcNames, VarNames,    \* spellings available for declared types / procedures (besides main) / parameters+locals
          Faults,                            \* fault rules enabled ({} = valid programs only)
          OnlyFaulty,                        \* emit only programs that carry a fault
          Grow,                              \* simulation: list nonterminals do not stop below this many terminals
          Shadowing,                         \* locals may shadow procedure names
          ForceAfter,                        \* simulation: after this many terminals a fault production is preferred (0 = off)
          Slim,                              \* statement-structure configurations: minimal expressions (1, a variable, `1 = 1`) and only exit/printi/declared callees
          Balance                            \* simulation: draw the production class (if / while / block / call ...) first, then the instance

VARIABLES phase, plan, tys, stack, out, ntok, cur, fault, lsigs
vars == <<phase, plan, tys, stack, out, ntok, cur, fault, lsigs>>

INT == 0
BOOL == 1
UNK == 999           \* type of an entity whose declaration is faulty: suppresses dependent checks, never used
TyId(i) == i + 1     \* array types are entries of `tys`; id = index + 1 (>= 2)
IsArr(t) == t >= 2 /\ t # UNK
Base(t) == tys[t - 1].base

NumStr(n) == CASE n = 0 -> "0" [] n = 1 -> "1" [] n = 2 -> "2" [] n = 3 -> "3" [] n = 4 -> "4" [] n = 5 -> "5" [] OTHER -> "9"
RECURSIVE TyStr(_)
TyStr(t) == IF t = INT THEN "int" ELSE IF t = BOOL THEN "boolean" ELSE IF t = UNK THEN "_"
            ELSE "array [" \o NumStr(tys[t - 1].size) \o "] of " \o TyStr(tys[t - 1].base)
Creator(t) == IF IsArr(t) THEN tys[t - 1].creator ELSE ""

\* predefined procedures (a representative subset of the ten)
Builtins == << [name |-> "printi", params |-> << [name |-> "i", ref |-> FALSE, ty |-> INT] >>],
               [name |-> "readi", params |-> << [name |-> "i", ref |-> TRUE, ty |-> INT] >>],
               [name |-> "exit", params |-> << >>],
               [name |-> "setPixel", params |-> << [name |-> "x", ref |-> FALSE, ty |-> INT], [name |-> "y", ref |-> FALSE, ty |-> INT],
                                                   [name |-> "color", ref |-> FALSE, ty |-> INT] >>] >>
BuiltinNames == {Builtins[i].name : i \in DOMAIN Builtins}

\* ---- symbols -------------------------------------------------------------
T(k, s)       == [t |-> "tok", k |-> k, s |-> s, b |-> "", r |-> "", ty |-> 0, x |-> ""]
Id(s, b, r)   == [t |-> "tok", k |-> "Ident", s |-> s, b |-> b, r |-> r, ty |-> 0, x |-> ""]   \* b: binding id, r: "decl" | "use"
N(n, ty, x)   == [t |-> "nt", k |-> n, s |-> "", b |-> "", r |-> "", ty |-> ty, x |-> x]
O(n, a)       == [t |-> "open", k |-> n, s |-> a, b |-> "", r |-> "", ty |-> 0, x |-> ""]
C             == [t |-> "close", k |-> "", s |-> "", b |-> "", r |-> "", ty |-> 0, x |-> ""]
A(n, arg)     == [t |-> "act", k |-> n, s |-> "", b |-> "", r |-> "", ty |-> 0, x |-> arg]
Kw(w) == T(CASE w = "if" -> "If" [] w = "else" -> "Else" [] w = "while" -> "While" [] w = "array" -> "Array"
             [] w = "of" -> "Of" [] w = "proc" -> "Proc" [] w = "ref" -> "Ref" [] w = "type" -> "Type" [] w = "var" -> "Var", w)
Sym(w) == T(CASE w = "(" -> "LParen" [] w = ")" -> "RParen" [] w = "[" -> "LBracket" [] w = "]" -> "RBracket"
              [] w = "{" -> "LCurly" [] w = "}" -> "RCurly" [] w = "=" -> "Eq" [] w = "#" -> "Neq" [] w = "<" -> "Lt"
              [] w = "<=" -> "Le" [] w = ">" -> "Gt" [] w = ">=" -> "Ge" [] w = ":=" -> "Assign" [] w = ":" -> "Colon"
              [] w = "," -> "Comma" [] w = ";" -> "Semic" [] w = "+" -> "Plus" [] w = "-" -> "Minus" [] w = "*" -> "Times"
              [] w = "/" -> "Divide", w)
IdNode(s, b, r) == <<O("Ident", s), Id(s, b, r), C>>
IntLit(n) == <<O("IntLit", NumStr(n)), T("Int", NumStr(n)), C>>
Culprit(rule, body) == <<O("CULPRIT", rule)>> \o body \o <<C>>
RECURSIVE Flat(_)
Flat(ss) == IF ss = <<>> THEN <<>> ELSE Head(ss) \o Flat(Tail(ss))

\* ---- plan phase ----------------------------------------------------------
\* plan entry: [kind, name, dims, base, ty, params, callable, dup, rule]
\*   type:  `type name = array[dims[1]] of ... base ;`   ty = its semantic type
\*   proc:  params = seq of [name, ref, dims, base, ty, dup]
NoFault == "none"
Used == {plan[d].name : d \in DOMAIN plan}
\* (a type whose own declaration is faulty is never referred to again: "array of <unknown>" is still an array)
TypesBefore(d) == {e \in 1..(d - 1) : e <= Len(plan) /\ plan[e].kind = "type" /\ ~plan[e].dup /\ plan[e].name # "main" /\ plan[e].ty # UNK}
TypeOf(nm, d) == IF nm = "int" THEN INT ELSE plan[CHOOSE e \in TypesBefore(d) : plan[e].name = nm].ty
TypeRefs(d) == {"int"} \cup {plan[e].name : e \in TypesBefore(d)}
\* type DECLARATIONS keep nested (non-square) array types in the statement-structure configurations
TypeDims == IF Slim THEN {<<>>, <<2>>, <<2, 3>>} ELSE {<<>>, <<2>>, <<3>>, <<2, 3>>}
Dims == IF Slim THEN (IF Faults = {} THEN {<<>>} ELSE {<<>>, <<2>>}) ELSE {<<>>, <<2>>, <<3>>, <<2, 3>>}
FaultOn(r) == fault = NoFault /\ r \in Faults

\* add the array types of a type expression; returns [tys, ty]
RECURSIVE MkType(_, _, _, _)
MkType(ts, dims, basety, creator) ==
  IF dims = <<>> THEN [tys |-> ts, ty |-> basety]
  ELSE LET inner == MkType(ts, Tail(dims), basety, creator) IN
       IF inner.ty = UNK THEN inner
       ELSE [tys |-> Append(inner.tys, [size |-> Head(dims), base |-> inner.ty, creator |-> creator]), ty |-> TyId(Len(inner.tys) + 1)]

Entry(kind, nm, dims, base, ty, params, callable, dup) ==
  [kind |-> kind, name |-> nm, dims |-> dims, base |-> base, ty |-> ty, params |-> params, callable |-> callable, dup |-> dup]

PlanType ==
  /\ phase = "plan" /\ Len(plan) < MaxDecls
  /\ \E nm \in TypeNames \ Used, dims \in TypeDims, base \in TypeRefs(Len(plan) + 1) :
       LET m == MkType(tys, dims, TypeOf(base, Len(plan) + 1), "type:" \o nm) IN
       /\ tys' = m.tys
       /\ plan' = Append(plan, Entry("type", nm, dims, base, m.ty, <<>>, FALSE, FALSE))
  /\ UNCHANGED <<phase, stack, out, ntok, cur, fault, lsigs>>

\* faulty type declarations (build rules)
PlanTypeFault ==
  /\ phase = "plan" /\ Len(plan) < MaxDecls
  /\ \/ /\ FaultOn("UndefinedType")
        /\ \E nm \in TypeNames \ Used : plan' = Append(plan, Entry("type", nm, <<>>, "undefinedtype", UNK, <<>>, FALSE, FALSE))
        /\ fault' = "UndefinedType"
     \/ /\ FaultOn("NotAType")
        /\ \E nm \in TypeNames \ Used, p \in {plan[e].name : e \in {x \in DOMAIN plan : plan[x].kind = "proc" /\ ~plan[x].dup}} \cup {"printi"} :
             plan' = Append(plan, Entry("type", nm, <<>>, p, UNK, <<>>, FALSE, FALSE))
        /\ fault' = "NotAType"
     \/ /\ FaultOn("RedeclarationAsType")
        /\ \E nm \in (Used \ {"main"}) \cup {"printi", "int"} : plan' = Append(plan, Entry("type", nm, <<>>, "int", INT, <<>>, FALSE, TRUE))
        /\ fault' = "RedeclarationAsType"
     \/ /\ FaultOn("MainIsNotAProcedure")
        /\ plan' = Append(plan, Entry("type", "main", <<>>, "int", INT, <<>>, FALSE, TRUE))
        /\ fault' = "MainIsNotAProcedure"
  /\ UNCHANGED <<phase, tys, stack, out, ntok, cur, lsigs>>

Param(nm, ref, dims, base, ty) == [name |-> nm, ref |-> ref, dims |-> dims, base |-> base, ty |-> ty, dup |-> FALSE]
\* parameter lists: none, one, two (value int + anything); arrays by reference only
ParamLists(d) ==
  LET one(nm) == {Param(nm, r, <<>>, b, TypeOf(b, d)) : r \in BOOLEAN, b \in TypeRefs(d)} IN
  {<<>>} \cup {<<p>> : p \in one("x")}
         \cup {<<Param("x", FALSE, <<>>, "int", INT), p>> : p \in one("y")}
WellFormedParams(ps) == \A j \in DOMAIN ps : IsArr(ps[j].ty) => ps[j].ref

PlanProc ==
  /\ phase = "plan" /\ Len(plan) < MaxDecls + 1            \* (one slot beyond MaxDecls is reserved for main)
  /\ \E nm \in (ProcNames \cup {"main"}) \ Used, ps \in ParamLists(Len(plan) + 1) :
       /\ Len(plan) = MaxDecls => nm = "main"
       /\ nm = "main" => ps = <<>>
       /\ WellFormedParams(ps)
       /\ plan' = Append(plan, Entry("proc", nm, <<>>, "", 0, ps, TRUE, FALSE))
  /\ UNCHANGED <<phase, tys, stack, out, ntok, cur, fault, lsigs>>

PlanProcFault ==
  /\ phase = "plan" /\ Len(plan) < MaxDecls
  /\ \/ /\ FaultOn("RedeclarationAsProcedure")
        /\ \E nm \in (Used \ {"main"}) \cup {"printi"} : plan' = Append(plan, Entry("proc", nm, <<>>, "", 0, <<>>, FALSE, TRUE))
        /\ fault' = "RedeclarationAsProcedure"
     \/ /\ FaultOn("MainMustNotHaveParameters") /\ "main" \notin Used
        /\ plan' = Append(plan, Entry("proc", "main", <<>>, "", 0, <<Param("x", FALSE, <<>>, "int", INT)>>, FALSE, FALSE))
        /\ fault' = "MainMustNotHaveParameters"
     \/ /\ FaultOn("RedeclarationAsParameter")
        /\ \E nm \in ProcNames \ Used :
             plan' = Append(plan, Entry("proc", nm, <<>>, "", 0,
                                        <<Param("x", FALSE, <<>>, "int", INT), [Param("x", FALSE, <<>>, "int", INT) EXCEPT !.dup = TRUE]>>, FALSE, FALSE))
        /\ fault' = "RedeclarationAsParameter"
     \/ /\ FaultOn("MustBeAReferenceParameter")
        /\ \E nm \in ProcNames \ Used, b \in TypeRefs(Len(plan) + 1) :
             /\ IsArr(TypeOf(b, Len(plan) + 1))
             /\ plan' = Append(plan, Entry("proc", nm, <<>>, "", 0, <<Param("x", FALSE, <<>>, b, TypeOf(b, Len(plan) + 1))>>, FALSE, FALSE))
        /\ fault' = "MustBeAReferenceParameter"
     \/ /\ FaultOn("UndefinedType")
        /\ \E nm \in ProcNames \ Used :
             plan' = Append(plan, Entry("proc", nm, <<>>, "", 0, <<Param("x", FALSE, <<>>, "undefinedtype", UNK)>>, FALSE, FALSE))
        /\ fault' = "UndefinedType"
     \/ /\ FaultOn("NotAType")                          \* a parameter whose type name denotes a procedure
        /\ \E nm \in ProcNames \ Used, p \in {plan[e].name : e \in {x \in DOMAIN plan : plan[x].kind = "proc" /\ ~plan[x].dup}} \cup {"printi"} :
             plan' = Append(plan, Entry("proc", nm, <<>>, "", 0, <<Param("x", FALSE, <<>>, p, UNK)>>, FALSE, FALSE))
        /\ fault' = "NotAType"
  /\ UNCHANGED <<phase, tys, stack, out, ntok, cur, lsigs>>

HasMain == \E d \in DOMAIN plan : plan[d].kind = "proc" /\ plan[d].name = "main" /\ ~plan[d].dup
PlanDone ==
  /\ phase = "plan" /\ Len(plan) >= MinDecls
  /\ \/ HasMain /\ UNCHANGED fault
     \/ ~HasMain /\ "main" \notin Used /\ FaultOn("MainIsMissing") /\ fault' = "MainIsMissing"
  /\ phase' = "derive"
  /\ stack' = <<O("Program", "")>> \o [d \in 1..Len(plan) |-> N("Decl", d, "")] \o <<C>>
  /\ UNCHANGED <<plan, tys, out, ntok, cur, lsigs>>

\* ---- derive phase --------------------------------------------------------
Scope == cur.params \o cur.locals            \* seq of [name, ref, ty, bind]
\* a local may carry the name of a declared procedure: inside this procedure the name then denotes the local
\* (locals before globals), so that procedure cannot be called here
\* (the procedure's OWN name is excluded: the pinned server resolves the name in a procedure's header through
\*  the local table as well, an observed defect outside the listed properties' core, see DESIGN 12.4)
\* likewise a local may carry the name of a declared type; that type can then not be named in later local declarations
\* and the name of a predefined procedure (which can then not be called here either)
ShadowBuiltins == {"exit", "time", "int"}
ShadowNames == IF Shadowing THEN ({plan[d].name : d \in {e \in DOMAIN plan : ~plan[e].dup}} \ {cur.proc}) \cup ShadowBuiltins ELSE {}
ScopeNames == {Scope[j].name : j \in DOMAIN Scope}
Usable == {j \in DOMAIN Scope : Scope[j].ty # UNK}
\* variables that yield type ty after k index steps
Elem(t, k) == IF k = 0 THEN t ELSE IF k = 1 THEN (IF IsArr(t) THEN Base(t) ELSE UNK)
              ELSE (IF IsArr(t) /\ IsArr(Base(t)) THEN Base(Base(t)) ELSE UNK)
VarsReaching(ty) == IF ty = UNK THEN {} ELSE {<<v, k>> \in Usable \X (0..2) : Elem(Scope[v].ty, k) = ty}

ArrVars == {u \in Usable : IsArr(Scope[u].ty)}
RECURSIVE VarRhs(_, _)
VarRhs(v, k) == IF k = 0 THEN <<O("NamedVar", Scope[v].name), Id(Scope[v].name, Scope[v].bind, "use"), C>>
                ELSE <<O("ArrayAccess", "")>> \o VarRhs(v, k - 1) \o <<Sym("["), N("Expr", INT, ""), Sym("]"), C>>

RECURSIVE TypeExprRhs(_, _, _)
TypeExprRhs(dims, base, culprit) ==
  IF dims = <<>>
  THEN LET b == IF base \in BuiltinNames \ {"int"} THEN "builtin:" \o base
                ELSE IF base = "int" THEN "builtin:int"
                ELSE IF base = "undefinedtype" THEN "" ELSE (IF \E e \in DOMAIN plan : plan[e].name = base /\ plan[e].kind = "proc" THEN "proc:" ELSE "type:") \o base
           node == <<O("NamedType", base), Id(base, b, "use"), C>>
       IN IF culprit = "" THEN node ELSE Culprit(culprit, node)
  ELSE <<O("ArrayType", ""), Kw("array"), Sym("[")>> \o IntLit(Head(dims)) \o <<Sym("]"), Kw("of")>> \o TypeExprRhs(Tail(dims), base, culprit) \o <<C>>

ParamRhs(d, j) ==
  LET p == plan[d].params[j]
      bind == "param:" \o plan[d].name \o ":" \o p.name
      tculprit == IF p.base = "undefinedtype" THEN "UndefinedType" ELSE IF p.ty = UNK THEN "NotAType" ELSE ""
      nameNode == IdNode(p.name, bind, "decl")
      body == (IF p.ref THEN <<Kw("ref")>> ELSE <<>>)
              \o (IF p.dup THEN Culprit("RedeclarationAsParameter", nameNode)
                  ELSE IF IsArr(p.ty) /\ ~p.ref THEN Culprit("MustBeAReferenceParameter", nameNode) ELSE nameNode)
              \o <<Sym(":")>> \o TypeExprRhs(p.dims, p.base, tculprit)
  IN (IF j > 1 THEN <<Sym(",")>> ELSE <<>>) \o <<O("Param", IF p.ref THEN "ref" ELSE "")>> \o body \o <<C>>

DeclRhs(d) ==
  LET e == plan[d] IN
  IF e.kind = "type"
  THEN LET nameCulprit == IF e.name = "main" THEN "MainIsNotAProcedure" ELSE IF e.dup THEN "RedeclarationAsType" ELSE ""
           tculprit == IF e.base = "undefinedtype" THEN "UndefinedType" ELSE IF e.ty = UNK THEN "NotAType" ELSE ""
           nameNode == IdNode(e.name, "type:" \o e.name, "decl")
       IN <<O("TypeDec", e.name), Kw("type")>>
          \o (IF nameCulprit = "" THEN nameNode ELSE Culprit(nameCulprit, nameNode))
          \o <<Sym("=")>> \o TypeExprRhs(e.dims, e.base, tculprit) \o <<Sym(";"), C>>
  ELSE LET nameCulprit == IF e.dup THEN "RedeclarationAsProcedure"
                          ELSE IF e.name = "main" /\ e.params # <<>> THEN "MainMustNotHaveParameters" ELSE ""
           nameNode == IdNode(e.name, "proc:" \o e.name, "decl")
       IN <<A("beginProc", d), O("ProcDec", e.name), Kw("proc")>>
          \o (IF nameCulprit = "" THEN nameNode ELSE Culprit(nameCulprit, nameNode))
          \o <<Sym("(")>> \o Flat([j \in DOMAIN e.params |-> ParamRhs(d, j)]) \o <<Sym(")"), Sym("{")>>
          \o (IF e.dup THEN <<>> ELSE <<N("Locals", d, ""), N("Stmts", 0, "")>>)
          \o <<Sym("}"), C, A("endProc", d)>>

SlimHidden == {"printc", "readi", "readc", "time", "clearAll", "setPixel", "drawLine", "drawCircle"}
Callees == {[name |-> plan[d].name, params |-> plan[d].params, bind |-> "proc:" \o plan[d].name]
              : d \in {e \in DOMAIN plan : plan[e].kind = "proc" /\ plan[e].callable /\ ~plan[e].dup}}
           \cup {[name |-> Builtins[b].name, params |-> [j \in DOMAIN Builtins[b].params |->
                                                      [name |-> Builtins[b].params[j].name, ref |-> Builtins[b].params[j].ref,
                                                       dims |-> <<>>, base |-> "int", ty |-> Builtins[b].params[j].ty, dup |-> FALSE]],
                  bind |-> "builtin:" \o Builtins[b].name] : b \in DOMAIN Builtins}
ArgFor(p) == IF p.ref THEN N("Var", p.ty, "") ELSE N("Expr", INT, "")
CallArgs(ps) == Flat([j \in DOMAIN ps |-> (IF j > 1 THEN <<Sym(",")>> ELSE <<>>) \o <<ArgFor(ps[j])>>])
Callable(c) == \A j \in DOMAIN c.params : c.params[j].ty # UNK /\ (c.params[j].ref => VarsReaching(c.params[j].ty) # {})
CallRhs(c, args) == <<O("Call", c.name)>> \o IdNode(c.name, c.bind, "use") \o <<Sym("(")>> \o args \o <<Sym(")"), Sym(";"), C>>
CmpInt == <<O("Binary", "<"), N("Add", INT, ""), Sym("<"), N("Add", INT, ""), C>>           \* a boolean-valued expression `e < e`
Paren(x) == <<O("Bracketed", "")>> \o <<Sym("(")>> \o x \o <<Sym(")"), C>>
Mark(rule) == A("fault", rule)

Prods(sym) ==
  LET n == sym.k ty == sym.ty IN
  CASE n = "Decl" -> {DeclRhs(ty)}
    [] n = "Locals" ->
         (IF ntok < Grow /\ Len(cur.locals) < 2 THEN {} ELSE {<<>>})
         \cup {<<O("VarDec", nm), Kw("var")>> \o IdNode(nm, "local:" \o cur.proc \o ":" \o nm, "decl") \o <<Sym(":")>>
                  \o TypeExprRhs(dims, base, "") \o <<Sym(";"), C,
                  A("enterLocal", [name |-> nm, dims |-> dims, base |-> base, d |-> ty]), N("Locals", ty, "")>>
                 : nm \in (VarNames \cup ShadowNames) \ ScopeNames, dims \in Dims, base \in TypeRefs(ty) \ ScopeNames}
         \cup (IF FaultOn("RedeclarationAsVariable") /\ ScopeNames # {}
               THEN {<<Mark("RedeclarationAsVariable"), O("VarDec", nm), Kw("var")>>
                      \o Culprit("RedeclarationAsVariable", IdNode(nm, "local:" \o cur.proc \o ":" \o nm \o ":dup", "decl"))
                      \o <<Sym(":")>> \o TypeExprRhs(<<>>, "int", "") \o <<Sym(";"), C, N("Locals", ty, "")>> : nm \in ScopeNames}
               ELSE {})
         \cup (IF FaultOn("UndefinedType")
               THEN {<<Mark("UndefinedType"), O("VarDec", nm), Kw("var")>> \o IdNode(nm, "local:" \o cur.proc \o ":" \o nm, "decl") \o <<Sym(":")>>
                      \o TypeExprRhs(<<>>, "undefinedtype", "UndefinedType") \o <<Sym(";"), C,
                      A("enterLocal", [name |-> nm, dims |-> <<>>, base |-> "undefinedtype", d |-> ty]), N("Locals", ty, "")>>
                      : nm \in VarNames \ ScopeNames}
               ELSE {})
         \* the type name of a local declaration denotes a variable of this procedure (locals before globals: also
         \* when that variable hides a declared type) or a procedure declared EARLIER (the table is built in source
         \* order: this or a later procedure is simply an undefined type at this point)
         \cup (IF FaultOn("NotAType")
               THEN {<<Mark("NotAType"), O("VarDec", nm), Kw("var")>> \o IdNode(nm, "local:" \o cur.proc \o ":" \o nm, "decl") \o <<Sym(":")>>
                      \o TypeExprRhs(<<>>, b, "NotAType") \o <<Sym(";"), C,
                      A("enterLocal", [name |-> nm, dims |-> <<>>, base |-> "undefinedtype", d |-> ty]), N("Locals", ty, "")>>
                      : nm \in VarNames \ ScopeNames,
                        b \in ScopeNames \cup ({plan[e].name : e \in {x \in 1..(ty - 1) : plan[x].kind = "proc" /\ ~plan[x].dup}} \ ScopeNames) \cup {"printi"}}
               ELSE {})
    [] n = "Stmts" -> (IF ntok < Grow /\ Len(stack) < 40 THEN {} ELSE {<<>>}) \cup (IF Slim /\ sym.ty >= 2 THEN {} ELSE {<<N("Stmt", 0, sym.x), N("Stmts", IF Slim THEN sym.ty + 1 ELSE 0, "")>>})
    [] n = "Stmt" ->
         {<<O("Empty", ""), Sym(";"), C>>,
          <<O("Block", ""), Sym("{"), N("Stmts", 0, ""), Sym("}"), C>>,
          <<O("If", "else"), Kw("if"), Sym("("), N("Expr", BOOL, ""), Sym(")"), N("Stmt", 0, "closed"), Kw("else"), N("Stmt", 0, sym.x), C>>,
          <<O("While", ""), Kw("while"), Sym("("), N("Expr", BOOL, ""), Sym(")"), N("Stmt", 0, sym.x), C>>}
         \cup (IF sym.x = "closed" THEN {} ELSE {<<O("If", ""), Kw("if"), Sym("("), N("Expr", BOOL, ""), Sym(")"), N("Stmt", 0, ""), C>>})
         \cup (IF VarsReaching(INT) = {} THEN {} ELSE {<<O("Assign", ""), N("Var", INT, ""), Sym(":="), N("Expr", INT, ""), Sym(";"), C>>})
         \cup {CallRhs(c, CallArgs(c.params)) : c \in {x \in Callees : Callable(x) /\ x.name \notin ScopeNames /\ (Slim => x.name \notin SlimHidden)}}
         \* ---- fault productions at statement level ----
         \cup (IF FaultOn("AssignmentHasDifferentTypes") /\ VarsReaching(INT) # {}
               THEN {<<Mark("AssignmentHasDifferentTypes")>> \o Culprit("AssignmentHasDifferentTypes",
                       <<O("Assign", ""), N("Var", INT, ""), Sym(":=")>> \o CmpInt \o <<Sym(";"), C>>)} ELSE {})
         \cup (IF FaultOn("AssignmentRequiresIntegers")
               THEN {<<Mark("AssignmentRequiresIntegers")>> \o Culprit("AssignmentRequiresIntegers",
                       <<O("Assign", "")>> \o VarRhs(v, 0) \o <<Sym(":=")>> \o VarRhs(v, 0) \o <<Sym(";"), C>>)
                       : v \in {u \in Usable : IsArr(Scope[u].ty)}} ELSE {})
         \cup (IF FaultOn("IfConditionMustBeBoolean")
               THEN {<<Mark("IfConditionMustBeBoolean"), O("If", ""), Kw("if"), Sym("(")>> \o Culprit("IfConditionMustBeBoolean", <<N("Add", INT, "")>>)
                       \o <<Sym(")"), N("Stmt", 0, ""), C>>} ELSE {})
         \cup (IF FaultOn("WhileConditionMustBeBoolean")
               THEN {<<Mark("WhileConditionMustBeBoolean"), O("While", ""), Kw("while"), Sym("(")>> \o Culprit("WhileConditionMustBeBoolean", <<N("Add", INT, "")>>)
                       \o <<Sym(")"), N("Stmt", 0, sym.x), C>>} ELSE {})
         \* the same rules violated by an ARRAY-typed operand (a second class of instances of each rule)
         \cup (IF FaultOn("IfConditionMustBeBoolean")
               THEN {<<Mark("IfConditionMustBeBoolean"), O("If", ""), Kw("if"), Sym("(")>> \o Culprit("IfConditionMustBeBoolean", VarRhs(v, 0))
                       \o <<Sym(")"), N("Stmt", 0, ""), C>> : v \in ArrVars} ELSE {})
         \cup (IF FaultOn("WhileConditionMustBeBoolean")
               THEN {<<Mark("WhileConditionMustBeBoolean"), O("While", ""), Kw("while"), Sym("(")>> \o Culprit("WhileConditionMustBeBoolean", VarRhs(v, 0))
                       \o <<Sym(")"), N("Stmt", 0, sym.x), C>> : v \in ArrVars} ELSE {})
         \cup (IF FaultOn("AssignmentHasDifferentTypes")
               THEN {<<Mark("AssignmentHasDifferentTypes")>> \o Culprit("AssignmentHasDifferentTypes",
                       <<O("Assign", "")>> \o VarRhs(a, 0) \o <<Sym(":=")>> \o VarRhs(b, 0) \o <<Sym(";"), C>>)
                       : <<a, b>> \in {<<x, y>> \in Usable \X ArrVars : Scope[x].ty # Scope[y].ty}} ELSE {})
         \cup (IF FaultOn("ArgumentsTypeMismatch")
               THEN {<<Mark("ArgumentsTypeMismatch")>> \o
                       CallRhs(c, Flat([j \in DOMAIN c.params |-> (IF j > 1 THEN <<Sym(",")>> ELSE <<>>)
                                          \o (IF j = kw[1] THEN Culprit("ArgumentsTypeMismatch", VarRhs(kw[2], kw[3])) ELSE <<ArgFor(c.params[j])>>)]))
                       \* (the variable itself or an indexed part of it: a row of a matrix for the matrix, an element for a row)
                       : <<c, kw>> \in {<<x, jw>> \in Callees \X ((1..3) \X Usable \X (0..2)) :
                                          /\ Callable(x) /\ x.name \notin ScopeNames /\ jw[1] <= Len(x.params)
                                          /\ Elem(Scope[jw[2]].ty, jw[3]) # UNK
                                          /\ Elem(Scope[jw[2]].ty, jw[3]) # x.params[jw[1]].ty
                                          /\ (IsArr(Elem(Scope[jw[2]].ty, jw[3])) \/ IsArr(x.params[jw[1]].ty))}} ELSE {})
         \cup (IF FaultOn("UndefinedProcedure")
               THEN {<<Mark("UndefinedProcedure")>> \o Culprit("UndefinedProcedure",
                       CallRhs([name |-> "undefinedproc", bind |-> ""], <<N("Expr", INT, "")>>))} ELSE {})
         \cup (IF FaultOn("CallOfNoneProcedure")
               THEN {<<Mark("CallOfNoneProcedure")>> \o Culprit("CallOfNoneProcedure", CallRhs([name |-> nm, bind |-> b], <<>>))
                       : <<nm, b>> \in {<<"int", "builtin:int">>} \cup {<<Scope[v].name, Scope[v].bind>> : v \in DOMAIN Scope}} ELSE {})
         \cup (IF FaultOn("TooFewArguments")
               THEN {<<Mark("TooFewArguments")>> \o Culprit("TooFewArguments", CallRhs(c, CallArgs(SubSeq(c.params, 1, Len(c.params) - 1))))
                       : c \in {x \in Callees : Callable(x) /\ x.name \notin ScopeNames /\ Len(x.params) >= 1}} ELSE {})
         \cup (IF FaultOn("TooManyArguments")
               THEN {<<Mark("TooManyArguments")>> \o Culprit("TooManyArguments",
                       CallRhs(c, CallArgs(c.params) \o (IF c.params = <<>> THEN <<>> ELSE <<Sym(",")>>) \o IntLit(1)))
                       : c \in {x \in Callees : Callable(x) /\ x.name \notin ScopeNames}} ELSE {})
         \cup (IF FaultOn("ArgumentsTypeMismatch")
               THEN {<<Mark("ArgumentsTypeMismatch")>> \o
                       CallRhs(c, Flat([j \in DOMAIN c.params |-> (IF j > 1 THEN <<Sym(",")>> ELSE <<>>)
                                          \o (IF j = k THEN Culprit("ArgumentsTypeMismatch", CmpInt) ELSE <<ArgFor(c.params[j])>>)]))
                       : <<c, k>> \in {<<x, j>> \in Callees \X (1..3) : Callable(x) /\ x.name \notin ScopeNames /\ j <= Len(x.params) /\ ~x.params[j].ref}} ELSE {})
         \cup (IF FaultOn("ArgumentMustBeAVariable")
               THEN {<<Mark("ArgumentMustBeAVariable")>> \o
                       CallRhs(c, Flat([j \in DOMAIN c.params |-> (IF j > 1 THEN <<Sym(",")>> ELSE <<>>)
                                          \o (IF j = k THEN Culprit("ArgumentMustBeAVariable", IntLit(1)) ELSE <<ArgFor(c.params[j])>>)]))
                       : <<c, k>> \in {<<x, j>> \in Callees \X (1..3) : Callable(x) /\ x.name \notin ScopeNames /\ j <= Len(x.params) /\ x.params[j].ref /\ x.params[j].ty = INT}} ELSE {})
    [] n = "Var" -> {VarRhs(vk[1], vk[2]) : vk \in VarsReaching(ty)}
                    \cup (IF ty = INT /\ FaultOn("UndefinedVariable")
                          THEN {<<Mark("UndefinedVariable")>> \o Culprit("UndefinedVariable", <<O("NamedVar", "undefinedvar"), Id("undefinedvar", "", "use"), C>>)} ELSE {})
                    \cup (IF ty = INT /\ FaultOn("NotAVariable")
                          THEN {<<Mark("NotAVariable")>> \o Culprit("NotAVariable", <<O("NamedVar", "int"), Id("int", "builtin:int", "use"), C>>)} ELSE {})
                    \cup (IF ty = INT /\ FaultOn("IndexingNonArray")
                          THEN {<<Mark("IndexingNonArray")>> \o Culprit("IndexingNonArray", <<O("ArrayAccess", "")>> \o VarRhs(v, 0) \o <<Sym("[")>> \o IntLit(0) \o <<Sym("]"), C>>)
                                  : v \in {u \in Usable : Scope[u].ty = INT}} ELSE {})
                    \cup (IF ty = INT /\ FaultOn("IndexingWithNonInteger")
                          THEN {<<Mark("IndexingWithNonInteger"), O("ArrayAccess", "")>> \o VarRhs(v, 0) \o <<Sym("[")>> \o Culprit("IndexingWithNonInteger", CmpInt) \o <<Sym("]"), C>>
                                  : v \in {u \in Usable : IsArr(Scope[u].ty) /\ Base(Scope[u].ty) = INT}} ELSE {})
                    \cup (IF ty = INT /\ FaultOn("IndexingWithNonInteger")
                          THEN {<<Mark("IndexingWithNonInteger"), O("ArrayAccess", "")>> \o VarRhs(v, 0) \o <<Sym("[")>> \o Culprit("IndexingWithNonInteger", VarRhs(w, 0)) \o <<Sym("]"), C>>
                                  : <<v, w>> \in {u \in Usable : IsArr(Scope[u].ty) /\ Base(Scope[u].ty) = INT} \X ArrVars} ELSE {})
    [] n = "Expr" -> IF ty = BOOL
                     THEN {<<O("Binary", o), N("Add", INT, ""), Sym(o), N("Add", INT, ""), C>> : o \in (IF Slim THEN {"="} ELSE {"<", "="})}
                          \cup (IF FaultOn("ComparisonNonInteger")
                                THEN {<<Mark("ComparisonNonInteger")>> \o Culprit("ComparisonNonInteger", <<O("Binary", "=")>> \o Paren(CmpInt) \o <<Sym("=")>> \o Paren(CmpInt) \o <<C>>)} ELSE {})
                          \cup (IF FaultOn("ComparisonNonInteger")
                                THEN {<<Mark("ComparisonNonInteger")>> \o Culprit("ComparisonNonInteger", <<O("Binary", "=")>> \o VarRhs(v, 0) \o <<Sym("=")>> \o VarRhs(v, 0) \o <<C>>) : v \in ArrVars} ELSE {})
                     ELSE {<<N("Add", INT, "")>>}
    [] n = "Add" -> {<<N("Mul", INT, "")>>} \cup (IF Slim THEN {} ELSE {<<O("Binary", "+"), N("Add", INT, ""), Sym("+"), N("Mul", INT, ""), C>>})
                    \cup (IF FaultOn("OperatorDifferentTypes")
                          THEN {<<Mark("OperatorDifferentTypes")>> \o Culprit("OperatorDifferentTypes", <<O("Binary", "+"), N("Add", INT, ""), Sym("+")>> \o Paren(CmpInt) \o <<C>>)} ELSE {})
                    \cup (IF FaultOn("ArithmeticOperatorNonInteger")
                          THEN {<<Mark("ArithmeticOperatorNonInteger")>> \o Culprit("ArithmeticOperatorNonInteger", <<O("Binary", "+")>> \o Paren(CmpInt) \o <<Sym("+")>> \o Paren(CmpInt) \o <<C>>)} ELSE {})
                    \cup (IF FaultOn("OperatorDifferentTypes")
                          THEN {<<Mark("OperatorDifferentTypes")>> \o Culprit("OperatorDifferentTypes", <<O("Binary", "+"), N("Mul", INT, ""), Sym("+")>> \o VarRhs(v, 0) \o <<C>>) : v \in ArrVars} ELSE {})
                    \cup (IF FaultOn("ArithmeticOperatorNonInteger")
                          THEN {<<Mark("ArithmeticOperatorNonInteger")>> \o Culprit("ArithmeticOperatorNonInteger", <<O("Binary", "+")>> \o VarRhs(v, 0) \o <<Sym("+")>> \o VarRhs(v, 0) \o <<C>>) : v \in ArrVars} ELSE {})
    [] n = "Mul" -> {<<N("Fac", INT, "")>>} \cup (IF Slim THEN {} ELSE {<<O("Binary", "*"), N("Mul", INT, ""), Sym("*"), N("Fac", INT, ""), C>>})
    [] n = "Fac" -> {IntLit(1)} \cup (IF Slim THEN {} ELSE {<<O("Unary", "-"), Sym("-"), N("Fac", INT, ""), C>>, Paren(<<N("Expr", INT, "")>>)})
                    \cup (IF VarsReaching(INT) = {} THEN {} ELSE {<<N("Var", INT, "")>>})
                    \* the negation of a comparison or of an array
                    \cup (IF FaultOn("ArithmeticOperatorNonInteger")
                          THEN {<<Mark("ArithmeticOperatorNonInteger")>> \o Culprit("ArithmeticOperatorNonInteger", <<O("Unary", "-"), Sym("-")>> \o Paren(CmpInt) \o <<C>>)}
                               \cup {<<Mark("ArithmeticOperatorNonInteger")>> \o Culprit("ArithmeticOperatorNonInteger", <<O("Unary", "-"), Sym("-")>> \o VarRhs(v, 0) \o <<C>>) : v \in ArrVars}
                          ELSE {})

MinTok(sym) ==
  IF sym.t = "tok" THEN 1
  ELSE IF sym.t # "nt" THEN 0
  ELSE CASE sym.k = "Decl" ->
              LET e == plan[sym.ty]
                  texpr(dims) == 1 + 5 * Len(dims)
                  RECURSIVE psum(_)
                  psum(j) == IF j = 0 THEN 0
                             ELSE psum(j - 1) + 2 + texpr(e.params[j].dims) + (IF e.params[j].ref THEN 1 ELSE 0) + (IF j > 1 THEN 1 ELSE 0)
              IN IF e.kind = "type" THEN 4 + texpr(e.dims) ELSE 6 + psum(Len(e.params))
         [] sym.k \in {"Stmt", "Var", "Expr", "Add", "Mul", "Fac"} -> 1
         [] OTHER -> 0
RECURSIVE Owed(_)
Owed(s) == IF s = <<>> THEN 0 ELSE MinTok(Head(s)) + Owed(Tail(s))
SizeBound == phase = "plan" \/ ntok + Owed(stack) <= MaxTok

\* (simulation only) prefer fault productions once the program has some size, so that random behaviours
\* exercise the derive-phase rules; one time in three, to spread over statement and expression level
IsFaultRhs(rhs) == rhs # <<>> /\ rhs[1].t = "act" /\ rhs[1].k = "fault"
Choices(sym) ==
  LET ps == Prods(sym) fps == {rhs \in ps : IsFaultRhs(rhs)} IN
  IF ForceAfter > 0 /\ fault = NoFault /\ ntok >= ForceAfter /\ fps # {} /\ RandomElement(1..3) = 1 THEN fps ELSE ps
\* (simulation only) TLC's simulator draws uniformly among successor states, and a statement has far more call
\* instances (callee x arguments) than if / while / block shapes; with Balance the class of the production
\* (its first symbol) is drawn first, so that every statement shape is equally likely (expressions stay
\* uniform over instances: a class-balanced expression grammar is supercritical and eats the token budget).
\* Exhaustive configurations keep Balance = FALSE: there every production is a successor anyway.
ClassOf(rhs) == IF rhs = <<>> THEN <<"eps", "">> ELSE <<rhs[1].t, rhs[1].k>>
ExprNts == {"Expr", "Add", "Mul", "Fac"}
SimpleRhs(rhs) == Len(rhs) = 1 \/ \A j \in DOMAIN rhs : ~(rhs[j].t = "nt" /\ rhs[j].k \in ExprNts)
Expand == /\ phase = "derive" /\ stack # <<>> /\ Head(stack).t = "nt"
          /\ IF Balance /\ Head(stack).k = "Stmt"
             THEN \E ps \in {{r \in Choices(Head(stack)) : ntok + Owed(r \o Tail(stack)) <= MaxTok}} :
                    /\ ps # {}
                    /\ \E cls \in {RandomElement({ClassOf(r) : r \in ps})} :
                         \E rhs \in {r \in ps : ClassOf(r) = cls} : stack' = rhs \o Tail(stack)
             ELSE IF Balance /\ Head(stack).k \in {"Add", "Mul", "Fac"}
             THEN \* three times in four an expression level stops growing (the uniform choice is supercritical:
                  \* the first expression of a program would eat the whole token budget)
                  \E ps \in {Choices(Head(stack))} : \E d \in {RandomElement(1..4)} :
                    \E rhs \in (IF d > 1 /\ \E r \in ps : SimpleRhs(r) THEN {r \in ps : SimpleRhs(r)} ELSE ps) : stack' = rhs \o Tail(stack)
             ELSE \E rhs \in Choices(Head(stack)) : stack' = rhs \o Tail(stack)
          /\ UNCHANGED <<phase, plan, tys, out, ntok, cur, fault, lsigs>>
Shift == /\ phase = "derive" /\ stack # <<>> /\ Head(stack).t \in {"tok", "open", "close"}
         /\ out' = Append(out, Head(stack)) /\ stack' = Tail(stack)
         /\ ntok' = ntok + (IF Head(stack).t = "tok" THEN 1 ELSE 0)
         /\ UNCHANGED <<phase, plan, tys, cur, fault, lsigs>>

NoProc == [proc |-> "", params |-> <<>>, locals |-> <<>>]
Act == /\ phase = "derive" /\ stack # <<>> /\ Head(stack).t = "act"
       /\ LET a == Head(stack) IN
          CASE a.k = "beginProc" ->
                 /\ cur' = [proc |-> plan[a.x].name, locals |-> <<>>,
                            params |-> [j \in DOMAIN plan[a.x].params |->
                                          [name |-> plan[a.x].params[j].name, ref |-> plan[a.x].params[j].ref,
                                           ty |-> IF plan[a.x].params[j].dup THEN UNK ELSE plan[a.x].params[j].ty,
                                           bind |-> "param:" \o plan[a.x].name \o ":" \o plan[a.x].params[j].name]]]
                 /\ UNCHANGED <<tys, fault, lsigs>>
            [] a.k = "enterLocal" ->
                 LET bind == "local:" \o cur.proc \o ":" \o a.x.name
                     basety == IF a.x.base = "undefinedtype" THEN UNK ELSE TypeOf(a.x.base, a.x.d)
                     m == MkType(tys, a.x.dims, basety, bind) IN
                 /\ tys' = m.tys
                 /\ cur' = [cur EXCEPT !.locals = Append(@, [name |-> a.x.name, ref |-> FALSE, ty |-> m.ty, bind |-> bind])]
                 /\ lsigs' = Append(lsigs, [id |-> bind, kind |-> "local", name |-> a.x.name, ref |-> FALSE,
                                             type |-> (IF m.ty = UNK THEN "_"
                                                       ELSE IF a.x.dims = <<>> THEN TyStr(m.ty)
                                                       ELSE "array [" \o NumStr(m.tys[m.ty - 1].size) \o "] of " \o
                                                            (IF Len(a.x.dims) = 1 THEN TyStr(basety)
                                                             ELSE "array [" \o NumStr(a.x.dims[2]) \o "] of " \o TyStr(basety))),
                                             creator |-> (IF m.ty = UNK \/ m.ty < 2 THEN "" ELSE m.tys[m.ty - 1].creator),
                                             owner |-> cur.proc, params |-> <<>>])
                 /\ UNCHANGED fault
            [] a.k = "endProc" -> cur' = NoProc /\ UNCHANGED <<tys, fault, lsigs>>
            [] a.k = "fault" -> fault' = a.x /\ UNCHANGED <<tys, cur, lsigs>>
       /\ stack' = Tail(stack) /\ UNCHANGED <<phase, plan, out, ntok>>

Init == /\ phase = "plan" /\ plan = <<>> /\ tys = <<>> /\ stack = <<>> /\ out = <<>> /\ ntok = 0
        /\ cur = NoProc /\ fault = NoFault /\ lsigs = <<>>
Next == PlanType \/ PlanTypeFault \/ PlanProc \/ PlanProcFault \/ PlanDone \/ Expand \/ Shift \/ Act
Spec == Init /\ [][Next]_vars

Done == phase = "derive" /\ stack = <<>>
Wanted == Done /\ (OnlyFaulty => fault # NoFault)

\* ---- what the specification says about a finished program -----------------
\* declaration table: one entry per binding id
ProcSig(d) == [id |-> "proc:" \o plan[d].name, kind |-> "proc", name |-> plan[d].name, ref |-> FALSE, type |-> "", creator |-> "",
               owner |-> "", params |-> [j \in DOMAIN plan[d].params |-> (IF plan[d].params[j].ref THEN "ref " ELSE "") \o plan[d].params[j].name
                                            \o ": " \o TyStr(plan[d].params[j].ty)]]
TypeSig(d) == [id |-> "type:" \o plan[d].name, kind |-> "type", name |-> plan[d].name, ref |-> FALSE, type |-> TyStr(plan[d].ty),
               creator |-> Creator(plan[d].ty), owner |-> "", params |-> <<>>]
ParamSig(d, j) == [id |-> "param:" \o plan[d].name \o ":" \o plan[d].params[j].name, kind |-> "param", name |-> plan[d].params[j].name,
                   ref |-> plan[d].params[j].ref, type |-> TyStr(plan[d].params[j].ty), creator |-> Creator(plan[d].params[j].ty),
                   owner |-> plan[d].name, params |-> <<>>]
GlobalSigs == [d \in DOMAIN plan |-> IF plan[d].kind = "type" THEN TypeSig(d) ELSE ProcSig(d)]
ParamSigs == Flat([d \in DOMAIN plan |-> [j \in DOMAIN plan[d].params |-> ParamSig(d, j)]])
BuiltinSigs == [b \in DOMAIN Builtins |-> [id |-> "builtin:" \o Builtins[b].name, kind |-> "proc", name |-> Builtins[b].name, ref |-> FALSE,
                  type |-> "", creator |-> "", owner |-> "",
                  params |-> [j \in DOMAIN Builtins[b].params |-> (IF Builtins[b].params[j].ref THEN "ref " ELSE "") \o Builtins[b].params[j].name \o ": int"]]]

\* sanity: brackets balanced
RECURSIVE Depth(_, _)
Depth(s, d) == IF s = <<>> THEN d
               ELSE IF Head(s).t = "open" THEN Depth(Tail(s), d + 1)
               ELSE IF Head(s).t = "close" THEN (IF d = 0 THEN 1000 ELSE Depth(Tail(s), d - 1))
               ELSE Depth(Tail(s), d)
Balanced == Done => Depth(out, 0) = 0
\* every use binds to something declared (or is the culprit of a fault)
UsesBound == Done => \A i \in DOMAIN out : (out[i].t = "tok" /\ out[i].k = "Ident" /\ out[i].b = "") => fault # NoFault
=============================================================================
