SPECIFICATION Spec
CONSTANTS
  MaxTok = 14
  TypeNames <- TN1
  ProcNames <- PN1
  CallNames <- CN1
  VarNames <- VN1
  IntLits <- Lit3
  RelOps <- RelAll
  AddOps <- AddAll
  MulOps <- MulAll
  Grow = 0
  Start = "ExprProg"
CONSTRAINT SizeBound
INVARIANTS Balanced EmitInv
CHECK_DEADLOCK FALSE
