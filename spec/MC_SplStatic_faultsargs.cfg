SPECIFICATION Spec
CONSTANTS
  MaxTok = 44
  MaxDecls = 2
  MinDecls = 2
  TypeNames <- TN1
  ProcNames <- PN1
  VarNames <- VN1
  Faults <- ArgFaults
  OnlyFaulty = TRUE
  Grow = 0
  Shadowing = FALSE
  ForceAfter = 0
  Slim = TRUE
  Balance = FALSE
CONSTRAINT SizeBound
INVARIANTS Balanced UsesBound CheckAgrees EmitInv
CHECK_DEADLOCK FALSE
