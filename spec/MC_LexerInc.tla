---------------------------- MODULE MC_LexerInc ----------------------------
EXTENDS SplLexerInc, Json
CONSTANTS MaxLen, MaxIns, Alphabet, Emit
VARIABLE text

\* look-ahead classes: ' \ n / LF 0 x < = i f blank and one 2-byte character
AlphaLA  == {"'","\\","n","/","\n","0","x","<","=","i","f"," ","U2"}
AlphaLA9 == {"'","\\","n","/","\n","0","x","=","U2"}
ConstTrue == TRUE
ConstFalse == FALSE

RECURSIVE Strings(_)
Strings(n) == IF n = 0 THEN {<<>>} ELSE Strings(n - 1) \cup {Append(s, c) : s \in Strings(n - 1), c \in Alphabet}

Edits(t) == {e \in [lo : 0..Len(t), hi : 0..Len(t), ins : Strings(MaxIns)] :
               e.lo <= e.hi /\ Len(t) - (e.hi - e.lo) + Len(e.ins) <= MaxLen}

Init == /\ text = <<>>
        /\ Emit => PrintT(<<"META", ToJson([maxlen |-> MaxLen, maxins |-> MaxIns,
                                            alphabet |-> SetToSeq(Alphabet)])>>)

\* every transition asserts the contract of the algorithm model
Edit == \E e \in Edits(text) :
          LET r == IncLex(text, Lex(text), e.lo, e.hi, e.ins) IN
          /\ Assert(Contract(Lex(text), r), <<"contract violated", text, e, r>>)
          /\ text' = r.new
Next == Edit
Spec == Init /\ [][Next]_text

EmitInv == Emit => PrintT(<<"TEXT", ToJson([text |-> text])>>)
TilingInv == Tiling(text)
=============================================================================
