---------------------------- MODULE TraceStatic ----------------------------
(* Implementation -> specification for the front end (C03, C04).           *)
(* Every line of the NDJSON file named by the environment variable TRACE   *)
(* records what the REAL analysis made of one text (fe export): its syntax *)
(* tree as a bracket stream, the kinds of its build / semantic             *)
(* diagnostics, the number of its syntax diagnostics.  A line is accepted  *)
(* when                                                                     *)
(*   - the tree is a tree of SPL's abstract syntax (WellFormed), and        *)
(*   - the rules SplCheck finds violated in THAT tree are exactly the kinds *)
(*     the implementation reported.                                         *)
(* Unlike the generator direction (one fault per program) this judges      *)
(* whatever the implementation was given: the repository's own programs,   *)
(* programs with several violations, programs outside the generator's      *)
(* core.  Lines with syntax diagnostics are skipped (their trees have      *)
(* holes); rejected lines are printed and counted, the run is accepted     *)
(* when every line was consumed and none rejected.                         *)
EXTENDS Naturals, Sequences, FiniteSets, TLC, Json, IOUtils

Rec == ndJsonDeserialize(IOEnv.TRACE)
SC == INSTANCE SplCheck
VARIABLES l, bad
ToSet(q) == {q[i] : i \in DOMAIN q}

ExprK == {"IntLit", "NamedVar", "ArrayAccess", "Unary", "Binary", "Bracketed"}
StmtK == {"Empty", "Block", "Assign", "If", "While", "Call"}
TypeK == {"NamedType", "ArrayType"}
VarK == {"NamedVar", "ArrayAccess"}
Rank(k) == IF k = "Param" THEN 1 ELSE IF k = "VarDec" THEN 2 ELSE IF k \in StmtK THEN 3 ELSE 0

RECURSIVE WFNode(_, _)
WFNode(s, i) ==
  LET ks == SC!Kids(s, i)
      kk == [j \in DOMAIN ks |-> s[ks[j]].k]
      k == s[i].k
      n == Len(kk) IN
  /\ CASE k = "Program" -> \A j \in 1..n : kk[j] \in {"TypeDec", "ProcDec"}
       [] k = "TypeDec" -> n = 2 /\ kk[1] = "Ident" /\ kk[2] \in TypeK
       [] k = "ProcDec" -> /\ n >= 1 /\ kk[1] = "Ident"
                           /\ \A j \in 2..n : Rank(kk[j]) > 0
                           /\ \A j \in 2..(n - 1) : Rank(kk[j]) <= Rank(kk[j + 1])
       [] k \in {"Param", "VarDec"} -> n = 2 /\ kk[1] = "Ident" /\ kk[2] \in TypeK
       [] k = "Ident" -> n = 0
       [] k = "NamedType" -> n = 0
       [] k = "ArrayType" -> n = 2 /\ kk[1] = "IntLit" /\ kk[2] \in TypeK
       [] k = "Empty" -> n = 0
       [] k = "Block" -> \A j \in 1..n : kk[j] \in StmtK
       [] k = "Assign" -> n = 2 /\ kk[1] \in VarK /\ kk[2] \in ExprK
       [] k = "If" -> n \in {2, 3} /\ kk[1] \in ExprK /\ \A j \in 2..n : kk[j] \in StmtK
       [] k = "While" -> n = 2 /\ kk[1] \in ExprK /\ kk[2] \in StmtK
       [] k = "Call" -> n >= 1 /\ kk[1] = "Ident" /\ \A j \in 2..n : kk[j] \in ExprK
       [] k \in {"IntLit", "NamedVar"} -> n = 0
       [] k = "ArrayAccess" -> n = 2 /\ kk[1] \in VarK /\ kk[2] \in ExprK
       [] k \in {"Unary", "Bracketed"} -> n = 1 /\ kk[1] \in ExprK
       [] k = "Binary" -> n = 2 /\ kk[1] \in ExprK /\ kk[2] \in ExprK
       [] OTHER -> FALSE
  /\ \A j \in 1..n : WFNode(s, ks[j])
WellFormed(s) == Len(s) >= 2 /\ s[1].t = "open" /\ s[1].k = "Program" /\ SC!End(s, 1) = Len(s) /\ WFNode(s, 1)

Judged(r) == r.nsyntax = 0
Accept(r) == Judged(r) => WellFormed(r.out) /\ SC!Violations(r.out) = ToSet(r.kinds)

Init == l = 1 /\ bad = 0
Next == /\ l <= Len(Rec)
        /\ LET r == Rec[l] ok == Accept(r) IN
           /\ IF ok THEN TRUE      \* (IF, not a disjunction: TLC would explore both disjuncts of an action)
              ELSE PrintT(<<"REJECT", ToJson([line |-> l, name |-> r.name, reported |-> r.kinds,
                                              wellformed |-> WellFormed(r.out),
                                              judged |-> IF WellFormed(r.out) THEN SC!Violations(r.out) ELSE {}])>>)
           /\ bad' = IF ok THEN bad ELSE bad + 1
        /\ l' = l + 1
Spec == Init /\ [][Next]_<<l, bad>>

\* acceptance: every line consumed, none rejected
NoneRejected == bad = 0
AllConsumed == \/ TLCGet("stats").diameter = Len(Rec) + 1
               \/ PrintT(<<"TRACE-NOT-CONSUMED", TLCGet("stats").diameter - 1, Len(Rec)>>) /\ FALSE
=============================================================================
