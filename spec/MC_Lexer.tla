---------------------------- MODULE MC_Lexer ----------------------------
(* Exhaustive enumeration of all texts up to MaxLen over Alphabet;        *)
(* checks the reference lexer's sanity properties and prints one replay   *)
(* case per text.                                                          *)
EXTENDS SplLexer, Json
CONSTANTS MaxLen, Alphabet, EmitCases
\* alphabets (cfg files cannot write escapes): every decision of the lexical grammar
AlphaFull == {"i","f","x","e","n","0","9","_","'","\\","/","<","=",":","("," ","\n","\r","U2","U3","U4"}
AlphaCore == {"i","f","x","e","n","0","_","'","\\","/","<","=",":"," ","\n","U2"}
VARIABLE text
Init == text = <<>>
Next == Len(text) < MaxLen /\ \E c \in Alphabet : text' = Append(text, c)
Spec == Init /\ [][Next]_text

TilingInv == Tiling(text)
LongestMatchInv == LongestMatch(text)
KeywordBoundaryInv == KeywordBoundary(text)
Case == [text |-> text, valid |-> LexValid(text), toks |-> Lex(text)]
EmitInv == EmitCases => PrintT(<<"CASE", ToJson(Case)>>)
=============================================================================
