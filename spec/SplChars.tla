---------------------------- MODULE SplChars ----------------------------
(* Abstract characters of LSP4SPL texts.                                   *)
(* A text is a sequence of character NAMES (TLA+ strings).  ASCII          *)
(* characters are named by themselves; "U2", "U3", "U4" name one           *)
(* representative character of each multi-byte UTF-8 length class          *)
(* (U+0142, U+20AC, U+1F600 in the harness).  U+0142 is chosen because its *)
(* low byte is an ASCII letter, which is what a `c as u8` truncation in an *)
(* implementation would see.                                               *)
EXTENDS Naturals, Sequences

LowerLetters == {"a","b","c","d","e","f","g","h","i","j","k","l","m","n","o","p","q","r","s","t","u","v","w","x","y","z"}
UpperLetters == {"A","B","C","D","E","F","G","H","I","J","K","L","M","N","O","P","Q","R","S","T","U","V","W","X","Y","Z"}
Letters   == LowerLetters \cup UpperLetters
Digits    == {"0","1","2","3","4","5","6","7","8","9"}
HexLetters == {"a","b","c","d","e","f","A","B","C","D","E","F"}
HexDigits == Digits \cup HexLetters
IdStart   == Letters \cup {"_"}
IdCont    == Letters \cup Digits \cup {"_"}
Blank     == {" ", "\t", "\r", "\n"}       \* SPL white space
MultiByte == {"U2", "U3", "U4"}

\* UTF-8 width in bytes and UTF-16 width in code units
U8(c)  == IF c = "U2" THEN 2 ELSE IF c = "U3" THEN 3 ELSE IF c = "U4" THEN 4 ELSE 1
U16(c) == IF c = "U4" THEN 2 ELSE 1

RECURSIVE Bytes(_)
Bytes(s) == IF s = <<>> THEN 0 ELSE U8(Head(s)) + Bytes(Tail(s))
RECURSIVE Units(_)
Units(s) == IF s = <<>> THEN 0 ELSE U16(Head(s)) + Units(Tail(s))

\* byte offset (0-based) of the character at 1-based index i; i may be Len(s)+1
ByteOff(s, i) == Bytes(SubSeq(s, 1, i - 1))

DigitVal(c) ==
  CASE c = "0" -> 0 [] c = "1" -> 1 [] c = "2" -> 2 [] c = "3" -> 3 [] c = "4" -> 4
    [] c = "5" -> 5 [] c = "6" -> 6 [] c = "7" -> 7 [] c = "8" -> 8 [] c = "9" -> 9
    [] c \in {"a","A"} -> 10 [] c \in {"b","B"} -> 11 [] c \in {"c","C"} -> 12
    [] c \in {"d","D"} -> 13 [] c \in {"e","E"} -> 14 [] c \in {"f","F"} -> 15
=============================================================================
