SPECIFICATION Spec
CONSTANTS
  MaxLexemes = 20
  MaxEdits = 0
  MaxLen = 400
INVARIANTS EmitLexemes
CHECK_DEADLOCK FALSE
