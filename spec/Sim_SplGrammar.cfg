SPECIFICATION Spec
CONSTANTS
  MaxTok = 400
  TypeNames <- TN2
  ProcNames <- PN1
  CallNames <- CN1
  VarNames <- VN2
  IntLits <- LitAll
  RelOps <- RelAll
  AddOps <- AddAll
  MulOps <- MulAll
  Grow = 120
  Start = "Root"
CONSTRAINT SizeBound
INVARIANTS Balanced EmitInv
CHECK_DEADLOCK FALSE
