---------------------------- MODULE SplLexer ----------------------------
(* The lexical grammar of SPL as a longest-match reference lexer over     *)
(* sequences of abstract characters (SplChars).                           *)
(*                                                                         *)
(*   Lex(text) = sequence of tokens                                        *)
(*     [k |-> kind, b |-> byte start, e |-> byte end (exclusive),          *)
(*      cb, ce |-> the same in character indices (1-based, ce exclusive),  *)
(*      v |-> numeric value (Int, Hex), s |-> spelling/content (Ident,     *)
(*      Comment, Char, Unknown), bad |-> token is not a lexeme of SPL,     *)
(*      ep |-> 1 + byte position of the lexical error it carries, 0 = none]*)
(*                                                                         *)
(* Lex is total: on text that is not lexically valid it describes the      *)
(* error-tolerant tokenisation of LSP4SPL (a character literal without     *)
(* closing tick, `0x` without digits, a stray character as `Unknown`);     *)
(* those tokens are marked `bad` and the properties only constrain them    *)
(* as far as the property statements do (tiling, incremental = batch).     *)
(*                                                                         *)
(* Kinds carry the names of the implementation's TokenType variants so     *)
(* that the projection in the harness is the identity on names.            *)
(* A comment extends to the end of the line OR of the text; its extent     *)
(* here excludes the line terminator (the harness accepts either).         *)
EXTENDS SplChars, TLC

Keywords == [ If |-> <<"i","f">>, Else |-> <<"e","l","s","e">>,
              While |-> <<"w","h","i","l","e">>, Array |-> <<"a","r","r","a","y">>,
              Of |-> <<"o","f">>, Proc |-> <<"p","r","o","c">>, Ref |-> <<"r","e","f">>,
              Type |-> <<"t","y","p","e">>, Var |-> <<"v","a","r">> ]

KwKind(w) == IF \E k \in DOMAIN Keywords : Keywords[k] = w
             THEN CHOOSE k \in DOMAIN Keywords : Keywords[k] = w
             ELSE "Ident"

At(s, i) == IF i >= 1 /\ i <= Len(s) THEN s[i] ELSE "EOF"

\* first index >= i whose character is not in S (Len(s)+1 if none)
RECURSIVE Run(_, _, _)
Run(s, i, S) == IF i <= Len(s) /\ s[i] \in S THEN Run(s, i + 1, S) ELSE i

\* index of the first line feed at or after i, or Len(s)+1
RECURSIVE LineEnd(_, _)
LineEnd(s, i) == IF i > Len(s) \/ s[i] = "\n" THEN i ELSE LineEnd(s, i + 1)

RECURSIVE NumVal(_, _, _)
NumVal(ds, base, acc) == IF ds = <<>> THEN acc ELSE NumVal(Tail(ds), base, acc * base + DigitVal(Head(ds)))

MaxDecDigits == 9   \* SIGNIFICANT digits (leading zeros do not count): values beyond are representable in SPL
MaxHexDigits == 7   \* but not in TLC's 32-bit integers: such literals are marked `bad` (= not decided here)

\* Deviation switch: the pinned implementation required a line feed to end a
\* comment (so `//x` at the end of the text lexed as `/` `/` `x`).  FALSE is
\* the SPL rule (and the repaired code); configurations that reproduce the
\* pinned behaviour override it.
CommentNeedsNewline == FALSE

\* One token starting at character index i (s[i] is not blank).
\* Returns [k, ce, v, s, bad, epc]  (epc = character index of the error position, 0 = none)
Tok(s, i) ==
  LET c  == s[i]
      c1 == At(s, i + 1)
      T(k, ce, v, sp, bad, epc) == [k |-> k, ce |-> ce, v |-> v, s |-> sp, bad |-> bad, epc |-> epc]
      One(k) == T(k, i + 1, 0, <<>>, FALSE, 0)
      Two(k) == T(k, i + 2, 0, <<>>, FALSE, 0)
  IN
  CASE c = "/" /\ c1 = "/" /\ (CommentNeedsNewline => LineEnd(s, i) <= Len(s)) ->
         LET j == LineEnd(s, i) IN T("Comment", j, 0, SubSeq(s, i + 2, j - 1), FALSE, 0)
    [] c = "(" -> One("LParen")   [] c = ")" -> One("RParen")
    [] c = "[" -> One("LBracket") [] c = "]" -> One("RBracket")
    [] c = "{" -> One("LCurly")   [] c = "}" -> One("RCurly")
    [] c = "=" -> One("Eq")       [] c = "#" -> One("Neq")
    [] c = "<" -> IF c1 = "=" THEN Two("Le") ELSE One("Lt")
    [] c = ">" -> IF c1 = "=" THEN Two("Ge") ELSE One("Gt")
    [] c = ":" -> IF c1 = "=" THEN Two("Assign") ELSE One("Colon")
    [] c = "," -> One("Comma")    [] c = ";" -> One("Semic")
    [] c = "+" -> One("Plus")     [] c = "-" -> One("Minus")
    [] c = "*" -> One("Times")
    [] c = "/" /\ ~(c1 = "/" /\ (CommentNeedsNewline => LineEnd(s, i) <= Len(s))) -> One("Divide")
    [] c = "'" ->
         \* character literal: 'c' or '\n' (escape); without the closing tick it is
         \* still a Char token, carrying an error at the position where the tick is missing
         IF c1 = "EOF" THEN T("Unknown", i + 1, 0, <<c>>, TRUE, 0)
         ELSE LET esc == c1 = "\\" /\ At(s, i + 2) = "n"
                  j == IF esc THEN i + 3 ELSE i + 2          \* where the closing tick must be
                  ch == IF esc THEN "\n" ELSE c1
              IN IF At(s, j) = "'"
                 THEN T("Char", j + 1, 0, <<ch>>, (~esc) /\ c1 \in {"\n", "\r", "\t"}, 0)
                 ELSE T("Char", j, 0, <<ch>>, TRUE, j)
    [] c = "0" /\ c1 = "x" ->
         LET j == Run(s, i + 2, HexDigits) IN
         IF j = i + 2
         THEN T("Hex", j, 0, <<>>, TRUE, j)
         ELSE LET z == Run(s, i + 2, {"0"})                     \* leading zeros do not count
                  sig == j - (IF z > j THEN j ELSE z) IN
              T("Hex", j, IF sig > MaxHexDigits THEN 0 ELSE NumVal(SubSeq(s, i + 2, j - 1), 16, 0),
                <<>>, sig > MaxHexDigits, 0)
    [] c \in Digits /\ ~(c = "0" /\ c1 = "x") ->
         LET j == Run(s, i, Digits) IN
         LET z == Run(s, i, {"0"})
             sig == j - (IF z > j THEN j ELSE z) IN
         T("Int", j, IF sig > MaxDecDigits THEN 0 ELSE NumVal(SubSeq(s, i, j - 1), 10, 0), <<>>, sig > MaxDecDigits, 0)
    [] c \in IdStart ->
         LET j == Run(s, i, IdCont) w == SubSeq(s, i, j - 1) k == KwKind(w) IN
         T(k, j, 0, IF k = "Ident" THEN w ELSE <<>>, FALSE, 0)
    [] OTHER -> T("Unknown", i + 1, 0, <<c>>, TRUE, 0)

RECURSIVE LexFrom(_, _)
LexFrom(s, i) ==
  LET j == Run(s, i, Blank) IN
  IF j > Len(s)
  THEN << [k |-> "Eof", cb |-> j, ce |-> j, b |-> ByteOff(s, j), e |-> ByteOff(s, j), v |-> 0, s |-> <<>>, bad |-> FALSE, ep |-> 0] >>
  ELSE LET t == Tok(s, j) IN
       << [k |-> t.k, cb |-> j, ce |-> t.ce, b |-> ByteOff(s, j), e |-> ByteOff(s, t.ce), v |-> t.v, s |-> t.s, bad |-> t.bad,
           ep |-> IF t.epc = 0 THEN 0 ELSE 1 + ByteOff(s, t.epc)] >>
       \o LexFrom(s, t.ce)

Lex(s) == LexFrom(s, 1)

\* A text is lexically valid iff it is a concatenation of SPL lexemes and white space.
\* (A multi-byte or other non-SPL character is fine inside a comment or a character literal.)
LexValid(s) == \A n \in DOMAIN Lex(s) : ~Lex(s)[n].bad

------------------------------------------------------------------------------
(* Sanity properties of the reference itself (checked by TLC on all texts  *)
(* of the exhaustive configuration).                                       *)

Tiling(s) ==
  LET ts == Lex(s) IN
  /\ ts[Len(ts)].k = "Eof" /\ ts[Len(ts)].cb = Len(s) + 1
  /\ \A n \in 1..(Len(ts) - 1) : ts[n].k # "Eof" /\ ts[n].cb < ts[n].ce /\ ts[n].ce <= ts[n + 1].cb
  /\ \A p \in 1..Len(s) :
        \/ \E n \in 1..(Len(ts) - 1) : ts[n].cb <= p /\ p < ts[n].ce
        \/ s[p] \in Blank

\* no token could have been longer: the character after an identifier/number is not a
\* continuation character, `<` `>` `:` are not followed by `=`, `/` not by `/`
LongestMatch(s) ==
  LET ts == Lex(s) IN
  \A n \in 1..(Len(ts) - 1) :
    LET nx == At(s, ts[n].ce) IN
    /\ ts[n].k \in {"Ident"} \cup DOMAIN Keywords => nx \notin IdCont
    /\ ts[n].k = "Int" => nx \notin Digits
    /\ (ts[n].k = "Hex" /\ ~ts[n].bad) => nx \notin HexDigits
    /\ ts[n].k \in {"Lt", "Gt", "Colon"} => nx # "="
    /\ ts[n].k = "Comment" => nx \in {"\n", "EOF"}
    /\ (ts[n].k = "Divide" /\ ~CommentNeedsNewline) => nx # "/"

KeywordBoundary(s) ==
  LET ts == Lex(s) IN
  \A n \in 1..(Len(ts) - 1) :
    /\ ts[n].k \in DOMAIN Keywords =>
          /\ SubSeq(s, ts[n].cb, ts[n].ce - 1) = Keywords[ts[n].k]
          /\ At(s, ts[n].ce) \notin IdCont
          \* (a keyword may directly follow a number: `0if` is Int, If)
          /\ (n > 1 /\ ts[n - 1].ce = ts[n].cb) => ts[n - 1].k \notin {"Ident"} \cup DOMAIN Keywords
    /\ ts[n].k = "Ident" => \A k \in DOMAIN Keywords : ts[n].s # Keywords[k]
=============================================================================
