---------------------------- MODULE TraceLexer ----------------------------
(* Implementation -> specification: token lists RECORDED from the real      *)
(* lexer::lex on (random, long) texts are validated against the reference   *)
(* lexer.  One record per line of the NDJSON file named by env TRACE:       *)
(*   {"text": [character names], "toks": [{"k","b","e","v","s":[names],     *)
(*    "nerr"}]}                                                             *)
(* The trace is accepted iff every record is explained:                     *)
(*   tiling for every text, and for lexically valid text token-by-token     *)
(*   equality with Lex(text) (a comment may include its line terminator).   *)
EXTENDS SplLexer, Json, IOUtils

Recs == ndJsonDeserialize(IOEnv.TRACE)
VARIABLES i, cur   \* cur = Lex(Recs[i].text), computed once per record
vars == <<i, cur>>

\* Tiling of the RECORDED tokens, as one linear walk over characters and tokens
\* (TLC re-evaluates LET definitions at every use, so nothing is precomputed):
\* p = next character, pb = its byte offset, n = next token, inside = within token n.
RECURSIVE Walk(_, _, _, _, _, _)
Walk(s, ts, n, p, pb, inside) ==
  IF n > Len(ts) THEN FALSE
  ELSE IF inside THEN
    IF pb = ts[n].e THEN Walk(s, ts, n + 1, p, pb, FALSE)
    ELSE IF pb > ts[n].e \/ p > Len(s) THEN FALSE              \* token end inside a character / beyond the text
    ELSE Walk(s, ts, n, p + 1, pb + U8(s[p]), TRUE)
  ELSE
    IF pb = ts[n].b /\ (ts[n].k = "Eof" => p > Len(s)) THEN
      IF ts[n].k = "Eof" THEN n = Len(ts) /\ ts[n].e = pb       \* exactly one Eof, empty, at the end
      ELSE ts[n].e > ts[n].b /\ Walk(s, ts, n, p, pb, TRUE)
    ELSE IF p > Len(s) \/ pb > ts[n].b THEN FALSE               \* token start inside a character / overlap
    ELSE s[p] \in Blank /\ Walk(s, ts, n, p + 1, pb + U8(s[p]), FALSE)   \* gaps hold only white space

ImplTiling(s, ts) == Walk(s, ts, 1, 1, 0, FALSE)

NoCR(t) == IF t # <<>> /\ t[Len(t)] = "\r" THEN SubSeq(t, 1, Len(t) - 1) ELSE t
TokMatches(s, g, x) ==
  /\ g.k = x.k /\ g.b = x.b
  /\ IF x.k = "Comment"
     THEN g.e \in {x.e} \cup (IF At(s, x.ce) = "\n" THEN {x.e + 1} ELSE {})
     ELSE g.e = x.e
  /\ x.k \in {"Ident", "Char"} => g.s = x.s
  /\ x.k = "Comment" => NoCR(g.s) = NoCR(x.s)      \* a CR before the LF may count as terminator
  /\ x.k \in {"Int", "Hex"} => g.v = x.v
  /\ g.nerr = 0

Explained(r) ==
  /\ ImplTiling(r.text, r.toks)
  /\ (\A n \in DOMAIN cur : ~cur[n].bad) =>
       /\ Len(cur) = Len(r.toks)
       /\ \A n \in 1..Len(cur) : TokMatches(r.text, r.toks[n], cur[n])

LexOf(n) == IF n <= Len(Recs) THEN Lex(Recs[n].text) ELSE <<>>
Init == i = 1 /\ cur = LexOf(1)
Next == i <= Len(Recs) /\ Explained(Recs[i]) /\ i' = i + 1 /\ cur' = LexOf(i + 1)
Spec == Init /\ [][Next]_vars

Accepted ==
  IF TLCGet("stats").diameter = Len(Recs) + 1 THEN TRUE
  ELSE Print(<<"REJECTED at record", TLCGet("stats").diameter, "of", Len(Recs)>>, FALSE)
=============================================================================
