---------------------------- MODULE LspServer ----------------------------
(* The lsp4spl server process (implementation model): the stdin pipe, the   *)
(* READER task (three sequential phase loops of server.rs), the bounded     *)
(* channels doctx and iotx, the document BROKER task (document.rs), the      *)
(* RESPONDER task (io.rs) and stdout.  One action per critical section of   *)
(* the code.  The ghost part folds the client's messages through the        *)
(* sequential semantics ExpStep (LspProtocol); the implementation part must *)
(* refine it for every interleaving and every channel capacity >= 1.        *)
EXTENDS LspProtocol

-----------------------------------------------------------------------------
(* The implementation.                                                      *)

VARIABLES
  g,          \* ghost: sequential state of everything sent so far
  nsent,      \* number of messages sent (request ids are positions)
  closed,     \* client closed its end of stdin
  pipe,       \* stdin: messages sent and not yet decoded, each with its id
  rphase,     \* reader phase: uninit | initing | main | shutdown | done
  rwait,      \* reader waits for the broker's oneshot reply: [w: idle|await|got, id, v]
  docq, ioq,  \* doctx / iotx
  docs,       \* broker state: Key -> content
  pend,       \* ghost: expected responses not yet on stdout
  pendD,      \* ghost: per URI, expected diagnostics not yet on stdout
  lastD,      \* ghost: per URI the content of the last diagnostics written (NoDoc = none)
  limbo,      \* document requests held by spawned sender tasks (only with the deviation SpawnOnFull)
  status,     \* process: None (running) | 10 | 11 (exit status 0 / 1) | 12 (ended by end of input)
  ok          \* no output so far contradicted the sequential semantics
vars == <<g, nsent, closed, pipe, rphase, rwait, docq, ioq, docs, pend, pendD, lastD, limbo, status, ok>>

Idle == [w |-> "idle", id |-> 0, v |-> NoDoc]
Running == status = None

Init ==
  /\ g = (IF StartMain THEN [G0 EXCEPT !.phase = "main"] ELSE G0) /\ nsent = 0 /\ closed = FALSE /\ pipe = <<>>
  /\ rphase = (IF StartMain THEN "main" ELSE "uninit") /\ rwait = Idle /\ docq = <<>> /\ ioq = <<>>
  /\ docs = [k \in Keys |-> NoDoc]
  /\ pend = <<>> /\ pendD = [u \in URIs |-> <<>>] /\ lastD = [u \in URIs |-> NoDoc]
  /\ limbo = {} /\ status = None /\ ok = TRUE

RECURSIVE AddDiags(_, _)
AddDiags(pd, outs) ==
  IF outs = <<>> THEN pd
  ELSE LET o == Head(outs) IN
       AddDiags(IF o.k = "diag" THEN [pd EXCEPT ![o.u] = Append(@, o.v)] ELSE pd, Tail(outs))

\* The client writes one message (it stops after `exit`).
ClientSend ==
  /\ nsent < MaxMsgs /\ ~closed /\ g.phase # "exited"
  /\ \E m \in Messages :
       LET r == ExpStep(g, m, nsent + 1) IN
       /\ g' = r.g
       /\ nsent' = nsent + 1
       /\ pipe' = Append(pipe, [m |-> m, id |-> nsent + 1])
       /\ pend' = pend \o SelectSeq(r.out, LAMBDA o : o.k = "resp")
       /\ pendD' = AddDiags(pendD, r.out)
  /\ UNCHANGED <<closed, rphase, rwait, docq, ioq, docs, lastD, status, ok, limbo>>

ClientClose ==
  /\ ~closed /\ closed' = TRUE
  /\ UNCHANGED <<g, nsent, pipe, rphase, rwait, docq, ioq, docs, pend, pendD, lastD, status, ok, limbo>>

\* Reader: decode the next frame and act on it (one loop iteration of the current phase).
\* A blocking channel send is an action that is disabled while the channel is full.
ReaderStep ==
  /\ Running /\ rphase \notin {"done", "abort"} /\ rwait.w = "idle" /\ pipe # <<>>
  /\ LET e == Head(pipe) m == e.m id == e.id
         respond(res) == /\ Len(ioq) < IoCap /\ ioq' = Append(ioq, Resp(id, res, NoDoc))
                         /\ UNCHANGED <<docq, rwait, status, limbo>>
         entry(t)     == [t |-> t, u |-> m.u, v |-> m.v, id |-> id]
         toBroker(t)  == /\ IF SpawnOnFull /\ t = "change" /\ Len(docq) >= DocCap
                            THEN limbo' = limbo \cup {entry(t)} /\ UNCHANGED docq          \* try_send failed: a spawned task will send it
                            ELSE Len(docq) < DocCap /\ docq' = Append(docq, entry(t)) /\ UNCHANGED limbo
                         /\ UNCHANGED <<ioq, status>>
         drop == UNCHANGED <<docq, ioq, rwait, status, limbo>>
     IN
     /\ pipe' = Tail(pipe)
     /\ CASE m.t = "exit" ->
               \* shutdown phase: leave the loop, run() drains the channels and returns (status 0);
               \* elsewhere: process::exit(1)
               IF rphase = "shutdown"
               THEN rphase' = "done" /\ UNCHANGED <<docq, ioq, rwait, status, limbo>>
               ELSE IF AbruptExit
                    THEN status' = 11 /\ UNCHANGED <<rphase, docq, ioq, rwait, limbo>>
                    ELSE rphase' = "abort" /\ UNCHANGED <<docq, ioq, rwait, status, limbo>>
          [] m.t # "exit" /\ rphase = "uninit" ->
               IF m.t = "init" THEN respond("ok") /\ rphase' = "initing"
               ELSE IF m.t \in Requests THEN respond("SNI") /\ UNCHANGED rphase
               ELSE drop /\ UNCHANGED rphase
          [] m.t # "exit" /\ rphase = "initing" ->
               IF m.t = "inited" THEN drop /\ rphase' = "main"
               ELSE IF m.t \in Requests THEN respond("SNI") /\ UNCHANGED rphase
               ELSE drop /\ UNCHANGED rphase
          [] m.t # "exit" /\ rphase = "main" ->
               CASE m.t = "init" -> respond("IR") /\ UNCHANGED rphase
                 [] m.t = "shutdown" -> respond("ok") /\ rphase' = "shutdown"
                 [] m.t \in {"unk", "sunk"} -> respond("MNF") /\ UNCHANGED rphase
                 [] m.t = "req" -> toBroker("get") /\ rwait' = [w |-> "await", id |-> id, v |-> NoDoc] /\ UNCHANGED rphase
                 [] m.t \in {"open", "change", "close"} -> toBroker(m.t) /\ UNCHANGED <<rwait, rphase>>
                 [] OTHER -> drop /\ UNCHANGED rphase
          [] m.t # "exit" /\ rphase = "shutdown" ->
               IF m.t \in Requests THEN respond("IR") /\ UNCHANGED rphase
               ELSE drop /\ UNCHANGED rphase
          [] OTHER -> drop /\ UNCHANGED rphase
  /\ UNCHANGED <<g, nsent, closed, docs, pend, pendD, lastD, ok>>

\* Reader: end of input.  Every phase loop ends, run() drains and returns.
ReaderEof ==
  /\ Running /\ rphase \notin {"done", "abort"} /\ rwait.w = "idle" /\ pipe = <<>> /\ closed
  /\ rphase' = "done"
  /\ UNCHANGED <<g, nsent, closed, pipe, rwait, docq, ioq, docs, pend, pendD, lastD, status, ok, limbo>>

\* Broker: one iteration of its receive loop.
BrokerStep ==
  /\ Running /\ docq # <<>>
  /\ LET e == Head(docq) k == Key(e.u)
         publish(v) == IF DiagCap THEN Len(ioq) < IoCap /\ ioq' = Append(ioq, Diag(e.u, v)) ELSE UNCHANGED ioq
     IN
     /\ docq' = Tail(docq)
     /\ CASE e.t = "open" -> publish(e.v) /\ docs' = [docs EXCEPT ![k] = e.v] /\ UNCHANGED rwait
          [] e.t = "change" -> IF docs[k] = NoDoc THEN UNCHANGED <<ioq, docs, rwait>>
                               ELSE publish(Apply(docs[k], e)) /\ docs' = [docs EXCEPT ![k] = Apply(@, e)] /\ UNCHANGED rwait
          [] e.t = "close" -> docs' = [docs EXCEPT ![k] = NoDoc] /\ UNCHANGED <<ioq, rwait>>
          [] e.t = "get" -> rwait' = [w |-> "got", id |-> e.id, v |-> docs[k]] /\ UNCHANGED <<ioq, docs>>
  /\ UNCHANGED <<g, nsent, closed, pipe, rphase, pend, pendD, lastD, status, ok, limbo>>

\* (deviation SpawnOnFull) a spawned sender task finally gets its message into doctx - in any order
LimboDeliver ==
  /\ Running /\ limbo # {} /\ Len(docq) < DocCap
  /\ \E e \in limbo : docq' = Append(docq, e) /\ limbo' = limbo \ {e}
  /\ UNCHANGED <<g, nsent, closed, pipe, rphase, rwait, ioq, docs, pend, pendD, lastD, status, ok>>

\* Reader: the handler got the broker's reply and enqueues the response.
ReaderRespond ==
  /\ Running /\ rwait.w = "got" /\ Len(ioq) < IoCap
  /\ ioq' = Append(ioq, Resp(rwait.id, "ok", rwait.v))
  /\ rwait' = Idle
  /\ UNCHANGED <<g, nsent, closed, pipe, rphase, docq, docs, pend, pendD, lastD, status, ok, limbo>>

Matches(exp, got) == /\ exp.id = got.id /\ exp.v = got.v
                     /\ \/ exp.res = got.res
                        \/ exp.res = "SNI|IR" /\ got.res \in {"SNI", "IR"}

\* Responder: write the head of iotx to stdout; the ghost compares it with the sequential semantics.
ResponderWrite ==
  /\ Running /\ ioq # <<>>
  /\ LET o == Head(ioq) IN
     /\ ioq' = Tail(ioq)
     /\ IF o.k = "resp"
        THEN /\ ok' = (ok /\ pend # <<>> /\ Matches(Head(pend), o))
             /\ pend' = IF pend = <<>> THEN pend ELSE Tail(pend)
             /\ UNCHANGED <<pendD, lastD>>
        ELSE /\ ok' = (ok /\ DiagCap /\ pendD[o.u] # <<>> /\ Head(pendD[o.u]) = o.v)
             /\ pendD' = [pendD EXCEPT ![o.u] = IF @ = <<>> THEN @ ELSE Tail(@)]
             /\ lastD' = [lastD EXCEPT ![o.u] = o.v]
             /\ UNCHANGED pend
  /\ UNCHANGED <<g, nsent, closed, pipe, rphase, rwait, docq, docs, limbo, status>>

\* run(): all channels drained, tasks joined -> the process ends.
ProcessEnd ==
  /\ Running /\ rphase \in {"done", "abort"} /\ docq = <<>> /\ ioq = <<>> /\ limbo = {}
  /\ status' = IF rphase = "abort" THEN 11 ELSE IF g.phase = "exited" /\ pipe = <<>> THEN g.exit ELSE 12
  /\ UNCHANGED <<g, nsent, closed, pipe, rphase, rwait, docq, ioq, docs, pend, pendD, lastD, ok, limbo>>

Next == ClientSend \/ ClientClose \/ ReaderStep \/ ReaderEof \/ BrokerStep \/ LimboDeliver \/ ReaderRespond \/ ResponderWrite \/ ProcessEnd

Fairness == /\ WF_vars(ReaderStep) /\ WF_vars(ReaderEof) /\ WF_vars(BrokerStep) /\ WF_vars(ReaderRespond)
            /\ WF_vars(ResponderWrite) /\ WF_vars(ProcessEnd)
Spec == Init /\ [][Next]_vars
FairSpec == Spec /\ Fairness

-----------------------------------------------------------------------------
(* Properties.                                                              *)

\* C18/C20: every output is the next one the sequential semantics promises
\* (responses in request order with the right content; per URI the diagnostics in order).
OutputIsSequentialSemantics == ok

\* C18: the exit status is the one the lifecycle prescribes
ExitStatus == status \in {10, 11} => (g.phase = "exited" /\ status = g.exit)

\* A gracefully ended session delivered everything it owed.
CompleteAtGracefulEnd ==
  (status \in {10, 12} /\ pipe = <<>>) => (pend = <<>> /\ \A u \in URIs : pendD[u] = <<>>)
\* ... and also when `exit` came without shutdown (violated by AbruptExit)
CompleteAtAnyExit ==
  (status = 11 /\ pipe = <<>>) => (pend = <<>> /\ \A u \in URIs : pendD[u] = <<>>)

\* C20: the last diagnostics published for a document describe its final content
LastDiagnosticsAreFinal ==
  (DiagCap /\ status \in {10, 12} /\ pipe = <<>>) =>
     \A u \in URIs : (lastD[u] # NoDoc /\ g.docs[u] # NoDoc) => lastD[u] = g.docs[u]

\* C20: diagnostics only for clients that announced support
NoDiagnosticsWithoutCapability ==
  ~DiagCap => (\A n \in 1..Len(ioq) : ioq[n].k # "diag") /\ (\A u \in URIs : lastD[u] = NoDoc)

\* C20: isolation / closed is forgotten - when the broker has caught up, its state is the client's
BrokerQuiet == pipe = <<>> /\ docq = <<>> /\ limbo = {} /\ rwait.w = "idle"
Isolation == (Running /\ BrokerQuiet /\ rphase \in {"main", "shutdown"} /\ g.phase \in {"main", "shutdown"}) =>
               \A u \in URIs : docs[Key(u)] = g.docs[u] \/ (\E w \in URIs : w # u /\ Key(w) = Key(u))
\* the same without the escape clause: refuted when two URIs share a key
StrictIsolation == (Running /\ BrokerQuiet /\ rphase \in {"main", "shutdown"} /\ g.phase \in {"main", "shutdown"}) =>
               \A u \in URIs : docs[Key(u)] = g.docs[u]

TypeOK == /\ Len(docq) <= DocCap /\ Len(ioq) <= IoCap /\ nsent <= MaxMsgs
          /\ rphase \in {"uninit", "initing", "main", "shutdown", "done", "abort"}

\* liveness (checked under FairSpec without state constraint)
HasPend(n) == \E i \in DOMAIN pend : pend[i].id = n
EveryRequestAnswered == \A n \in 1..MaxMsgs : HasPend(n) ~> ~HasPend(n)
EofLeadsToExit == closed ~> ~Running
=============================================================================
