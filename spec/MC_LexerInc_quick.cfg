SPECIFICATION Spec
CONSTANTS
  MaxLen = 3
  MaxIns = 2
  Alphabet <- AlphaLA
  Emit = TRUE
INVARIANTS TilingInv EmitInv
CHECK_DEADLOCK FALSE
