SPECIFICATION Spec
CONSTANTS
  MaxLen = 4
  Alphabet <- AlphaFull
  EmitCases = TRUE
INVARIANTS TilingInv LongestMatchInv KeywordBoundaryInv EmitInv
CHECK_DEADLOCK FALSE
