---------------------------- MODULE SplSession ----------------------------
(* A document under edit: continues a finished program of the derivation    *)
(* machine (SplGrammar) with the edits a client can make.                   *)
(*                                                                          *)
(*   doc  : the client's document as its sequence of token spellings        *)
(*          (rendered with one blank between tokens)                        *)
(*   hist : the edits applied so far                                        *)
(*                                                                          *)
(* Edits (one action each):                                                 *)
(*   EditTokens(i, j, repl)  replace tokens [i, j) by 0..2 tokens of the    *)
(*                           SPL token alphabet (deletion, insertion,       *)
(*                           replacement; also of `proc`/`type`)            *)
(*   EditChars(kind, i, k, c) a character-level edit that changes token     *)
(*                           boundaries: split token i at character k by a  *)
(*                           blank, join tokens i and i+1, insert character *)
(*                           c (quote, slash, line feed, 2-byte character)  *)
(*                           at position k of token i, delete a character;  *)
(*                           "space": white space typed into the gap before *)
(*                           token i (changes no token at all)              *)
(*   Batch(e1, e2)           two edits delivered in one notification, the   *)
(*                           second relative to the result of the first     *)
(*   Damage(kind, i, tok)    = EditTokens restricted to single tokens (C05) *)
(*                                                                          *)
(* REFINEMENT STATEMENT of property C01: after every edit                   *)
(*        server.known = Analyze(server.text) /\ server.text = client.text  *)
(* where Analyze is deliberately opaque: the property DEFINES the right     *)
(* answer as what the same code computes from scratch.  The specification   *)
(* contributes the documents, the edit histories and the client's text.     *)
EXTENDS SplGrammar

CONSTANTS MaxEdits, Alphabet, Chars
VARIABLES doc, hist, base
svars == <<vars, doc, hist, base>>

Spellings(s) == [i \in DOMAIN Tokens(s) |-> Tokens(s)[i].s]

\* an edit record (one shape)
Edit(kind, i, j, repl, k, c) == [kind |-> kind, i |-> i, j |-> j, repl |-> repl, k |-> k, c |-> c]

ApplyTokens(d, e) == SubSeq(d, 1, e.i) \o e.repl \o SubSeq(d, e.j + 1, Len(d))      \* i, j: 0-based offsets, i <= j

\* all token-level edits of a document (the harness mirrors this set for single edits)
TokenEdits(d) ==
  {Edit("tokens", i, j, r, 0, "") : i \in 0..Len(d), j \in 0..Len(d), r \in {<<>>} \cup {<<a>> : a \in Alphabet}}
EnabledEdit(d, e) == e.i <= e.j /\ e.j - e.i <= 2 /\ (e.j > e.i \/ e.repl # <<>>) /\ (e.j - e.i = 2 => e.repl = <<>>)

SInit == Init /\ doc = <<>> /\ hist = <<>> /\ base = <<>>
Derive == Next /\ UNCHANGED <<doc, hist, base>>
Open == /\ Done /\ base = <<>> /\ out # <<>> /\ hist = <<>> /\ doc = <<>> /\ Tokens(out) # <<>>
        /\ doc' = Spellings(out) /\ base' = Spellings(out) /\ UNCHANGED <<vars, hist>>

\* simulation: one random edit (bound through singleton sets, see MC_LexerChain)
RandomTokenEdit ==
  /\ base # <<>> /\ Len(hist) < MaxEdits
  /\ \E i \in {RandomElement(0..Len(doc))}, len \in {RandomElement({0, 0, 1, 1, 2})}, r \in {RandomElement({<<>>} \cup {<<a>> : a \in Alphabet})},
        b \in {RandomElement({"", "", "batch"})} :       \* "batch": delivered in one notification together with the next edit
       LET j == IF i + len > Len(doc) THEN Len(doc) ELSE i + len
           e == Edit("tokens", i, j, IF j - i = 2 THEN <<>> ELSE r, 0, b) IN
       /\ EnabledEdit(doc, e)
       /\ doc' = ApplyTokens(doc, e) /\ hist' = Append(hist, e)
  /\ UNCHANGED <<vars, base>>
\* character-level edits are described by kind; the document stays a token-spelling sequence only as
\* long as the harness can re-tokenise it, so after a character edit the history is closed
RandomCharEdit ==
  /\ base # <<>> /\ Len(hist) = MaxEdits - 1 /\ doc # <<>>          \* (the last edit of a history; it may be the second
  \*                                                                    half of a batch if its predecessor is marked "batch")
  \* ("comment": the comment starter `//` typed in front of token i comments the rest of the line out)
  /\ \E kind \in {RandomElement({"split", "join", "insert", "delete", "space", "comment"})}, i \in {RandomElement(1..Len(doc))},
        k \in {RandomElement(0..3)}, c \in {RandomElement(Chars)} :
       hist' = Append(hist, Edit(kind, i, i, <<>>, k, c))
  /\ UNCHANGED <<vars, doc, base>>
SNext == Derive \/ Open \/ RandomTokenEdit \/ RandomCharEdit
SSpec == SInit /\ [][SNext]_svars

\* exhaustive variant: EVERY token edit of every finished program is a transition
AnyTokenEdit ==
  /\ base # <<>> /\ Len(hist) < MaxEdits
  /\ \E e \in TokenEdits(doc) :
       /\ EnabledEdit(doc, e)
       /\ doc' = ApplyTokens(doc, e) /\ hist' = Append(hist, e)
  /\ UNCHANGED <<vars, base>>
XNext == Derive \/ Open \/ AnyTokenEdit
XSpec == SInit /\ [][XNext]_svars
\* the client's text model: an edit changes the length as its shape says
EditShape == hist # <<>> => LET e == hist[Len(hist)] IN e.i <= e.j /\ Len(e.repl) <= 1

HistoryDone == base # <<>> /\ Len(hist) = MaxEdits
=============================================================================
