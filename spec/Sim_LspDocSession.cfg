SPECIFICATION Spec
CONSTANTS
  MaxNotes = 20
  MaxLen = 80
INVARIANTS Emit
CHECK_DEADLOCK FALSE
