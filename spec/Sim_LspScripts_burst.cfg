SPECIFICATION GSpec
CONSTANTS
  MaxMsgs = 150
  DocCap = 1
  IoCap = 1
  DiagCap = TRUE
  PathOnly = FALSE
  AbruptExit = FALSE
  SpawnOnFull = FALSE
  StartMain = TRUE
  ReqTail = 6
  URIs <- ThreeUris
  Alphabet <- BurstAlphabet
INVARIANTS EmitFinal
CHECK_DEADLOCK FALSE
