SPECIFICATION Spec
CONSTANTS
  MaxTok = 20
  MaxDecls = 1
  MinDecls = 1
  TypeNames <- TN0
  ProcNames <- PN0
  VarNames <- VN1
  Faults <- NoFaults
  OnlyFaulty = FALSE
  Grow = 0
  Shadowing = FALSE
  ForceAfter = 0
  Slim = TRUE
  Balance = FALSE
CONSTRAINT SizeBound
INVARIANTS Balanced UsesBound CheckAgrees EmitInv
CHECK_DEADLOCK FALSE
